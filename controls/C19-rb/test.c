/*
 * C19: rehash is incremental, finishes in bounded operations, lands
 * where requested.
 *
 * Standalone test, public API only. All observations of the library's
 * internal work are made through instrumented hash functions: every
 * consultation of a hash function is recorded as (function, key, size).
 *
 * A small reference model predicts, for every API call, which
 * consultations are permitted:
 *   - no rehash pending: a keyed operation consults exactly once,
 *     (current function, key, current size)
 *   - rehash pending: a keyed operation either already behaves as
 *     finished (exactly one consultation with the requested geometry), or
 *     it is a "working" operation. There may be at most as many working
 *     operations as there were buckets when the resize was requested.
 *     A working operation consults the old geometry at most once, the new
 *     geometry for the key at least once, and everything else is a
 *     relocation (new geometry, key of a stored element); the number of
 *     relocations is bounded by the contents of three buckets.
 *   - immediately after every satisfiable resize, load == size / n
 */
#define _POSIX_C_SOURCE 200809L

#include "cstl/hash.h"

#include <stddef.h>
#include <stdint.h>
#include <stdio.h>
#include <stdlib.h>
#include <string.h>
#include <sys/resource.h>

#ifndef SEED
#define SEED 22u
#endif
#ifndef HISTORIES
#define HISTORIES 250u
#endif

#if defined(__SANITIZE_ADDRESS__) || defined(__SANITIZE_THREAD__)
#define HAVE_SANITIZER 1
#elif defined(__has_feature)
#if __has_feature(address_sanitizer) || __has_feature(memory_sanitizer) \
    || __has_feature(thread_sanitizer)
#define HAVE_SANITIZER 1
#endif
#endif

#define FAIL(...)                                                       \
    do {                                                                \
        fprintf(stderr, "FAIL %s:%d [%s]: ", __FILE__, __LINE__, g_ctx); \
        fprintf(stderr, __VA_ARGS__);                                   \
        fprintf(stderr, "\n");                                          \
        exit(1);                                                        \
    } while (0)
#define REQ(C, ...) do { if (!(C)) { FAIL(__VA_ARGS__); } } while (0)

static char g_ctx[256] = "-";

/* ------------------------------------------------------------------ */
/* element types                                                      */

struct elem
{
    int id;
    size_t key;
    int in;
    unsigned int seen;
    struct cstl_hash_node hn;
};

/* a second element type, node at another offset, used by a callback */
struct other
{
    struct cstl_hash_node hn;
    double pad;
    int v;
};

/* ------------------------------------------------------------------ */
/* instrumented hash functions                                        */

enum { F_DIV, F_REV, F_MIX, F_ZERO, F_AUX, NFN };

struct call
{
    int fn;
    size_t k, m;
};

#define MAXCALLS 65536
static struct call calls[MAXCALLS];
static size_t ncalls;

static void rec(const int fn, const size_t k, const size_t m)
{
    if (ncalls < MAXCALLS) {
        calls[ncalls].fn = fn;
        calls[ncalls].k = k;
        calls[ncalls].m = m;
    }
    ncalls++;
}

static size_t raw(const int fn, const size_t k, const size_t m)
{
    switch (fn) {
    case F_DIV:
    case F_AUX:
        return k % m;
    case F_REV:
        return (m - 1) - (k % m);
    case F_MIX:
        return ((k * (size_t)2654435761u) >> 5) % m;
    case F_ZERO:
        return 0;
    default:
        abort();
    }
}

static size_t f_div(const size_t k, const size_t m)
{
    rec(F_DIV, k, m);
    return raw(F_DIV, k, m);
}

static size_t f_rev(const size_t k, const size_t m)
{
    rec(F_REV, k, m);
    return raw(F_REV, k, m);
}

static size_t f_mix(const size_t k, const size_t m)
{
    rec(F_MIX, k, m);
    return raw(F_MIX, k, m);
}

static size_t f_zero(const size_t k, const size_t m)
{
    rec(F_ZERO, k, m);
    return raw(F_ZERO, k, m);
}

/*
 * a hash function that itself uses the library, on ANOTHER hash object
 * holding another element type: it looks things up there, resizes that
 * table now and then (so that table is regularly mid-rehash itself) and
 * erases/re-inserts elements of it
 */
static struct cstl_hash aux;
static struct other aux_pool[16];
static unsigned int aux_tick;

static size_t f_aux(const size_t k, const size_t m)
{
    struct other * o;

    rec(F_AUX, k, m);

    aux_tick++;
    if (aux_tick % 5 == 0) {
        cstl_hash_resize(&aux, (aux_tick % 2) ? 3 : 7, NULL);
    }
    o = cstl_hash_find(&aux, k % 16, NULL, NULL);
    REQ(o != NULL && o->v == (int)(k % 16), "aux lookup of %lu failed",
        (unsigned long)(k % 16));
    if (aux_tick % 7 == 0) {
        cstl_hash_erase(&aux, o);
        REQ(cstl_hash_find(&aux, k % 16, NULL, NULL) == NULL,
            "aux erase failed");
        cstl_hash_insert(&aux, k % 16, o);
    }
    REQ(cstl_hash_size(&aux) == 16, "aux size");

    return raw(F_AUX, k, m);
}

static cstl_hash_func_t * const fns[NFN] = {
    f_div, f_rev, f_mix, f_zero, f_aux
};

static void aux_setup(void)
{
    unsigned int i;

    cstl_hash_init(&aux, offsetof(struct other, hn));
    cstl_hash_resize(&aux, 5, cstl_hash_div);
    for (i = 0; i < 16; i++) {
        aux_pool[i].v = i;
        cstl_hash_insert(&aux, i, &aux_pool[i]);
    }
}

/* ------------------------------------------------------------------ */
/* the model                                                          */

#define MAXM 4096

struct model
{
    struct cstl_hash * h;

    /* geometry the table has once all accepted requests are worked off */
    int cur_fn;
    size_t cur_m;
    /* a request that may still be being worked off */
    int pend, pend_fn;
    size_t pend_m;
    /* buckets at the time of the request; working operations so far */
    size_t bound, pend_ops;

    size_t size;
    size_t keymax;
    unsigned int * cnt;

    /* statistics */
    size_t max_reloc, working_ops, finished_ops;
};

static void model_init(struct model * const M, struct cstl_hash * const h,
                       unsigned int * const cnt, const size_t keymax)
{
    memset(M, 0, sizeof(*M));
    M->h = h;
    M->cur_fn = -1;
    M->cnt = cnt;
    M->keymax = keymax;
    memset(cnt, 0, sizeof(*cnt) * keymax);
}

/* the most populated bucket if all stored keys were hashed by (fn, m) */
static size_t maxload(const struct model * const M,
                      const int fn, const size_t m)
{
    static size_t ld[MAXM];
    size_t k, max = 0;

    REQ(m <= MAXM, "test limit");
    memset(ld, 0, sizeof(ld[0]) * m);
    for (k = 0; k < M->keymax; k++) {
        if (M->cnt[k] > 0) {
            const size_t i = raw(fn, k, m);
            ld[i] += M->cnt[k];
            if (ld[i] > max) {
                max = ld[i];
            }
        }
    }
    return max;
}

static void check_load(const struct model * const M)
{
    const size_t n = M->pend ? M->pend_m : M->cur_m;
    volatile float want, got;

    REQ(cstl_hash_size(M->h) == M->size, "size is %lu, want %lu",
        (unsigned long)cstl_hash_size(M->h), (unsigned long)M->size);
    if (M->cur_fn >= 0) {
        want = (float)M->size / n;
        got = cstl_hash_load(M->h);
        REQ(want == got, "load is %g, want %lu/%lu = %g", (double)got,
            (unsigned long)M->size, (unsigned long)n, (double)want);
    }
}

static void promote(struct model * const M)
{
    if (M->pend) {
        M->cur_fn = M->pend_fn;
        M->cur_m = M->pend_m;
        M->pend = 0;
    }
}

/* every recorded consultation must be (fn, key of a stored element, m) */
static void calls_all_relocations(const struct model * const M,
                                  const int fn, const size_t m,
                                  const char * const what)
{
    size_t i;

    REQ(ncalls <= MAXCALLS, "test limit");
    for (i = 0; i < ncalls; i++) {
        REQ(calls[i].fn == fn && calls[i].m == m,
            "%s: consulted function %d with size %lu, only %d/%lu allowed",
            what, calls[i].fn, (unsigned long)calls[i].m,
            fn, (unsigned long)m);
        REQ(calls[i].k < M->keymax && M->cnt[calls[i].k] > 0,
            "%s: hashed key %lu, which is not stored", what,
            (unsigned long)calls[i].k);
    }
}

/* judge the consultations made by one keyed operation on key k */
static void check_keyed(struct model * const M, const size_t k,
                        const char * const what)
{
    size_t i, old = 0, newk = 0, reloc, lim;

    REQ(M->cur_fn >= 0, "test error");
    REQ(ncalls <= MAXCALLS, "test limit");

    if (!M->pend) {
        REQ(ncalls == 1, "%s(%lu): %lu consultations with no rehash pending",
            what, (unsigned long)k, (unsigned long)ncalls);
        REQ(calls[0].fn == M->cur_fn
            && calls[0].k == k && calls[0].m == M->cur_m,
            "%s(%lu): consulted (%d,%lu,%lu), want (%d,%lu,%lu)",
            what, (unsigned long)k, calls[0].fn,
            (unsigned long)calls[0].k, (unsigned long)calls[0].m,
            M->cur_fn, (unsigned long)k, (unsigned long)M->cur_m);
        M->finished_ops++;
        return;
    }

    if (ncalls == 1 && calls[0].fn == M->pend_fn
        && calls[0].k == k && calls[0].m == M->pend_m) {
        /* the rehash had finished before this operation */
        promote(M);
        M->finished_ops++;
        return;
    }

    /* a working operation */
    REQ(M->pend_ops < M->bound,
        "%s(%lu): rehash still pending after %lu keyed operations "
        "on %lu buckets", what, (unsigned long)k,
        (unsigned long)M->pend_ops, (unsigned long)M->bound);
    M->pend_ops++;
    M->working_ops++;

    for (i = 0; i < ncalls; i++) {
        if (calls[i].fn == M->cur_fn && calls[i].m == M->cur_m) {
            REQ(calls[i].k == k, "%s(%lu): old geometry consulted for %lu",
                what, (unsigned long)k, (unsigned long)calls[i].k);
            old++;
        } else if (calls[i].fn == M->pend_fn && calls[i].m == M->pend_m) {
            if (calls[i].k == k) {
                newk++;
            } else {
                REQ(calls[i].k < M->keymax && M->cnt[calls[i].k] > 0,
                    "%s(%lu): hashed key %lu, which is not stored",
                    what, (unsigned long)k, (unsigned long)calls[i].k);
            }
        } else {
            FAIL("%s(%lu): consulted (%d,%lu,%lu); old is (%d,%lu), "
                 "requested is (%d,%lu)", what, (unsigned long)k,
                 calls[i].fn, (unsigned long)calls[i].k,
                 (unsigned long)calls[i].m,
                 M->cur_fn, (unsigned long)M->cur_m,
                 M->pend_fn, (unsigned long)M->pend_m);
        }
    }
    REQ(old <= 1, "%s(%lu): old geometry consulted %lu times",
        what, (unsigned long)k, (unsigned long)old);
    REQ(newk >= 1, "%s(%lu): requested geometry not consulted for the key",
        what, (unsigned long)k);

    /*
     * a bucket being cleaned holds at most what the old geometry put
     * there plus what the new geometry has already moved there
     */
    reloc = ncalls - old - 1;
    lim = 3 * (maxload(M, M->cur_fn, M->cur_m)
               + maxload(M, M->pend_fn, M->pend_m));
    REQ(reloc <= lim,
        "%s(%lu): %lu relocations, three buckets hold at most %lu",
        what, (unsigned long)k, (unsigned long)reloc, (unsigned long)lim);
    if (reloc > M->max_reloc) {
        M->max_reloc = reloc;
    }
}

/* fn < 0 means passing NULL */
static void m_resize(struct model * const M, const size_t n, const int fn)
{
    ncalls = 0;
    cstl_hash_resize(M->h, n, fn < 0 ? NULL : fns[fn]);

    if (n == 0) {
        REQ(ncalls == 0, "resize(0) consulted a hash function");
    } else if (M->cur_fn < 0) {
        REQ(fn >= 0, "test error");
        REQ(ncalls == 0, "first resize consulted a hash function");
        M->cur_fn = fn;
        M->cur_m = n;
        M->pend = 0;
    } else {
        const int tfn = M->pend ? M->pend_fn : M->cur_fn;
        const size_t tm = M->pend ? M->pend_m : M->cur_m;
        const int rfn = fn < 0 ? tfn : fn;

        if (rfn == tfn && n == tm) {
            REQ(ncalls == 0, "resize to the requested geometry hashed");
        } else {
            if (M->pend) {
                /* the earlier request may be completed, nothing else */
                calls_all_relocations(M, M->pend_fn, M->pend_m, "resize");
                promote(M);
            } else {
                REQ(ncalls == 0, "resize hashed %lu keys",
                    (unsigned long)ncalls);
            }
            M->pend = 1;
            M->pend_fn = rfn;
            M->pend_m = n;
            M->bound = M->cur_m;
            M->pend_ops = 0;
        }
    }

    if (n > 0) {
        volatile float want = (float)M->size / n;
        volatile float got = cstl_hash_load(M->h);
        REQ(want == got, "after resize(%lu): load %g, want %lu/%lu",
            (unsigned long)n, (double)got,
            (unsigned long)M->size, (unsigned long)n);
    }
    check_load(M);
}

/* a resize that cannot be satisfied leaves everything as it was */
static void m_resize_fail(struct model * const M, const size_t n, const int fn)
{
    ncalls = 0;
    cstl_hash_resize(M->h, n, fn < 0 ? NULL : fns[fn]);
    REQ(ncalls == 0, "failed resize hashed");
    check_load(M);
}

static void m_insert(struct model * const M,
                     struct elem * const e, const size_t k)
{
    REQ(!e->in && k < M->keymax, "test error");
    e->key = k;
    ncalls = 0;
    cstl_hash_insert(M->h, k, e);
    check_keyed(M, k, "insert");
    e->in = 1;
    M->cnt[k]++;
    M->size++;
    check_load(M);
}

static void m_erase(struct model * const M, struct elem * const e)
{
    REQ(e->in, "test error");
    ncalls = 0;
    cstl_hash_erase(M->h, e);
    check_keyed(M, e->key, "erase");
    e->in = 0;
    M->cnt[e->key]--;
    M->size--;
    check_load(M);
}

static void m_find_any(struct model * const M, const size_t k)
{
    const struct elem * e;

    ncalls = 0;
    e = cstl_hash_find(M->h, k, NULL, NULL);
    check_keyed(M, k, "find");
    if (k < M->keymax && M->cnt[k] > 0) {
        REQ(e != NULL, "key %lu not found", (unsigned long)k);
        REQ(e->in && e->key == k, "find(%lu) returned element with key %lu",
            (unsigned long)k, (unsigned long)e->key);
    } else {
        REQ(e == NULL, "absent key %lu found", (unsigned long)k);
    }
    check_load(M);
}

struct fv
{
    const struct elem * want;
    size_t key;
    unsigned int calls;
    int bad;
};

static int find_visit(const void * const p, void * const x)
{
    const struct elem * const e = p;
    struct fv * const v = x;

    v->calls++;
    if (!e->in || e->key != v->key) {
        v->bad = 1;
    }
    return e == v->want;
}

/* look for one particular element among those with the same key */
static void m_find_elem(struct model * const M, const struct elem * const e)
{
    struct fv v;
    const void * r;

    REQ(e->in, "test error");
    v.want = e;
    v.key = e->key;
    v.calls = 0;
    v.bad = 0;

    ncalls = 0;
    r = cstl_hash_find(M->h, e->key, find_visit, &v);
    check_keyed(M, e->key, "find/visit");
    REQ(r == e, "find with visitor did not return the chosen element");
    REQ(!v.bad, "visitor saw an element with another key");
    REQ(v.calls >= 1 && v.calls <= M->cnt[e->key], "visitor calls");
    check_load(M);
}

/* a visitor that accepts nothing sees every element with the key, once */
static void m_find_none(struct model * const M, const size_t k)
{
    struct fv v;
    const void * r;

    v.want = NULL;
    v.key = k;
    v.calls = 0;
    v.bad = 0;

    ncalls = 0;
    r = cstl_hash_find(M->h, k, find_visit, &v);
    check_keyed(M, k, "find/reject");
    REQ(r == NULL, "find returned an element its visitor rejected");
    REQ(!v.bad, "visitor saw an element with another key");
    REQ(v.calls == (k < M->keymax ? M->cnt[k] : 0),
        "visitor saw %u elements with key %lu, stored %u", v.calls,
        (unsigned long)k, k < M->keymax ? M->cnt[k] : 0);
    check_load(M);
}

static void m_rehash(struct model * const M)
{
    ncalls = 0;
    cstl_hash_rehash(M->h);
    if (M->pend) {
        calls_all_relocations(M, M->pend_fn, M->pend_m, "rehash");
        promote(M);
    } else {
        REQ(ncalls == 0, "rehash with nothing pending hashed");
    }
    check_load(M);
}

static void m_shrink(struct model * const M)
{
    ncalls = 0;
    cstl_hash_shrink_to_fit(M->h);
    if (M->pend) {
        calls_all_relocations(M, M->pend_fn, M->pend_m, "shrink_to_fit");
        /* may or may not have had to finish; next keyed op tells */
    } else {
        REQ(ncalls == 0, "shrink_to_fit with nothing pending hashed");
    }
    check_load(M);
}

struct cv
{
    unsigned int gen;
    size_t n;
};

static int content_visit(const void * const p, void * const x)
{
    /* the elements are not const, only the view of them is */
    struct elem * const e = (struct elem *)(uintptr_t)p;
    struct cv * const v = x;

    REQ(e->in, "visited an element that is not stored");
    REQ(e->seen != v->gen, "element visited twice");
    e->seen = v->gen;
    v->n++;
    return 0;
}

static unsigned int g_gen;

/* every stored element is reachable, exactly once; nothing is hashed */
static void m_content(struct model * const M)
{
    struct cv v;

    v.gen = ++g_gen;
    v.n = 0;
    ncalls = 0;
    REQ(cstl_hash_foreach_const(M->h, content_visit, &v) == 0, "foreach");
    REQ(ncalls == 0, "foreach_const hashed");
    REQ(v.n == M->size, "foreach_const saw %lu of %lu elements",
        (unsigned long)v.n, (unsigned long)M->size);
    check_load(M);
}

struct ev
{
    struct model * M;
    unsigned int gen;
    size_t n, erased;
    unsigned int every;
};

static int erasing_visit(void * const p, void * const x)
{
    struct elem * const e = p;
    struct ev * const v = x;

    REQ(e->in, "visited an element that is not stored");
    REQ(e->seen != v->gen, "element visited twice");
    e->seen = v->gen;
    v->n++;
    if (v->every != 0 && v->n % v->every == 0) {
        /* removing the current element is allowed */
        cstl_hash_erase(v->M->h, e);
        e->in = 0;
        v->M->cnt[e->key]--;
        v->M->size--;
        v->erased++;
    }
    return 0;
}

/* the modifying foreach completes a pending rehash */
static void m_foreach(struct model * const M, const unsigned int every)
{
    struct ev v;
    const size_t before = M->size;
    size_t i;

    v.M = M;
    v.gen = ++g_gen;
    v.n = 0;
    v.erased = 0;
    v.every = every;

    ncalls = 0;
    REQ(cstl_hash_foreach(M->h, erasing_visit, &v) == 0, "foreach");
    REQ(v.n == before, "foreach saw %lu of %lu elements",
        (unsigned long)v.n, (unsigned long)before);
    promote(M);
    /* completion of the rehash plus one lookup per erased element */
    REQ(ncalls <= MAXCALLS, "test limit");
    for (i = 0; i < ncalls; i++) {
        REQ(calls[i].fn == M->cur_fn && calls[i].m == M->cur_m,
            "foreach consulted a geometry that was not requested");
    }
    if (every == 0) {
        REQ(ncalls <= 2 * before, "foreach hashed more than twice per element");
    }
    check_load(M);
}

static size_t g_cleared;

static void clear_cb(void * const p, void * const x)
{
    struct elem * const e = p;

    (void)x;
    REQ(e->in, "cleared an element that is not stored");
    e->in = 0;
    g_cleared++;
}

static void m_clear(struct model * const M)
{
    g_cleared = 0;
    ncalls = 0;
    cstl_hash_clear(M->h, clear_cb);
    REQ(ncalls == 0, "clear hashed");
    REQ(g_cleared == M->size, "clear met %lu of %lu elements",
        (unsigned long)g_cleared, (unsigned long)M->size);
    REQ(cstl_hash_size(M->h) == 0, "size after clear");
    memset(M->cnt, 0, sizeof(*M->cnt) * M->keymax);
    M->size = 0;
    M->cur_fn = -1;
    M->pend = 0;
}

/*
 * work the table with lookups until the model says the rehash must be
 * over (the check inside insists that it is), then check every key
 */
static void m_settle(struct model * const M)
{
    size_t i, k = 0;

    for (i = 0; M->pend && i <= M->bound; i++) {
        m_find_any(M, k);
        k = (k + 1) % (M->keymax + 1);
    }
    for (k = 0; k <= M->keymax; k++) {
        m_find_any(M, k);
    }
    REQ(!M->pend, "rehash never finished");
    for (k = 0; k < M->keymax; k++) {
        m_find_none(M, k);
    }
    m_content(M);
}

/* ------------------------------------------------------------------ */
/* 1. every operation sequence in a small scope                       */

struct alphabet
{
    size_t nsizes;
    size_t sizes[4];
    size_t nfns;
    int fns[3];
    size_t nkeys;
};

static size_t alphabet_size(const struct alphabet * const a)
{
    /* resize, insert, find, find/reject, erase, rehash */
    return a->nsizes * a->nfns + 4 * a->nkeys + 1;
}

static struct elem small_pool[32];
static unsigned int small_cnt[8];

static struct elem * small_free(void)
{
    size_t i;
    for (i = 0; i < sizeof(small_pool) / sizeof(small_pool[0]); i++) {
        if (!small_pool[i].in) {
            return &small_pool[i];
        }
    }
    FAIL("test pool exhausted");
    return NULL;
}

static struct elem * small_with_key(const size_t k)
{
    size_t i;
    for (i = 0; i < sizeof(small_pool) / sizeof(small_pool[0]); i++) {
        if (small_pool[i].in && small_pool[i].key == k) {
            return &small_pool[i];
        }
    }
    return NULL;
}

static void small_op(struct model * const M,
                     const struct alphabet * const a, size_t op)
{
    struct elem * e;

    if (op < a->nsizes * a->nfns) {
        m_resize(M, a->sizes[op / a->nfns], a->fns[op % a->nfns]);
        return;
    }
    op -= a->nsizes * a->nfns;
    if (op < a->nkeys) {
        m_insert(M, small_free(), op);
        return;
    }
    op -= a->nkeys;
    if (op < a->nkeys) {
        m_find_any(M, op);
        return;
    }
    op -= a->nkeys;
    if (op < a->nkeys) {
        if ((e = small_with_key(op)) != NULL) {
            m_find_elem(M, e);
        } else {
            m_find_none(M, op);
        }
        return;
    }
    op -= a->nkeys;
    if (op < a->nkeys) {
        if ((e = small_with_key(op)) != NULL) {
            m_erase(M, e);
        }
        return;
    }
    m_rehash(M);
}

static size_t small_scope(const struct alphabet * const a,
                          const unsigned int len, const int prefix)
{
    const size_t A = alphabet_size(a);
    size_t total = 1, s, runs = 0;
    unsigned int i;

    for (i = 0; i < len; i++) {
        total *= A;
    }

    for (s = 0; s < total; s++) {
        struct cstl_hash hs = CSTL_HASH_INITIALIZER(struct elem, hn);
        struct cstl_hash hd;
        struct model M;
        size_t x = s;

        memset(small_pool, 0, sizeof(small_pool));
        if (s % 2 == 0) {
            model_init(&M, &hs, small_cnt, a->nkeys);
        } else {
            cstl_hash_init(&hd, offsetof(struct elem, hn));
            model_init(&M, &hd, small_cnt, a->nkeys);
        }

        if (prefix == 0) {
            /* a populated table, nothing pending */
            m_resize(&M, 2, F_DIV);
            for (i = 0; i < a->nkeys; i++) {
                m_insert(&M, small_free(), i);
            }
            m_insert(&M, small_free(), 1 % a->nkeys);
        } else if (prefix == 1) {
            /* an empty table */
            m_resize(&M, 3, F_REV);
        } else {
            /* a populated table with a resize pending */
            m_resize(&M, 4, F_REV);
            for (i = 0; i < a->nkeys; i++) {
                m_insert(&M, small_free(), i);
                m_insert(&M, small_free(), i);
            }
            m_resize(&M, 3, F_DIV);
        }

        for (i = 0; i < len; i++) {
            snprintf(g_ctx, sizeof(g_ctx),
                     "small scope len %u prefix %d seq %lu step %u",
                     len, prefix, (unsigned long)s, i);
            small_op(&M, a, x % A);
            x /= A;
        }
        m_content(&M);
        m_settle(&M);
        m_clear(&M);
        runs++;
    }

    return runs;
}

/* ------------------------------------------------------------------ */
/* 2. seeded random histories                                         */

static unsigned long rng_state;

static unsigned int rnd(void)
{
    rng_state = rng_state * 6364136223846793005ul + 1442695040888963407ul;
    return (unsigned int)(rng_state >> 33);
}

#define RPOOL 600
#define RKEYS 256
static struct elem rpool[RPOOL];
static unsigned int rcnt[RKEYS];

static struct elem * rpick(const int in)
{
    unsigned int i, start = rnd() % RPOOL;
    for (i = 0; i < RPOOL; i++) {
        struct elem * const e = &rpool[(start + i) % RPOOL];
        if (!!e->in == !!in) {
            return e;
        }
    }
    return NULL;
}

static void random_history(const unsigned int seed, const unsigned int nops,
                           const size_t keys, const size_t maxm,
                           struct model * const stats)
{
    struct cstl_hash h1 = CSTL_HASH_INITIALIZER(struct elem, hn);
    struct cstl_hash h2;
    struct cstl_hash * spare = &h2;
    struct model M;
    size_t prev_m = 1;
    unsigned int i;

    rng_state = seed * 2654435761ul + 12345;
    memset(rpool, 0, sizeof(rpool));
    for (i = 0; i < RPOOL; i++) {
        rpool[i].id = i;
    }
    cstl_hash_init(&h2, offsetof(struct elem, hn));
    model_init(&M, &h1, rcnt, keys);

    snprintf(g_ctx, sizeof(g_ctx), "history %u start", seed);
    m_resize(&M, 0, rnd() % NFN);
    m_resize(&M, 1 + rnd() % maxm, rnd() % NFN);

    for (i = 0; i < nops; i++) {
        const unsigned int r = rnd() % 100;
        struct elem * e;

        snprintf(g_ctx, sizeof(g_ctx), "history %u op %u", seed, i);

        if (r < 8) {
            const size_t tm = M.pend ? M.pend_m : M.cur_m;
            const unsigned int how = rnd() % 8;
            size_t n;
            int fn = (rnd() % 5 < 2) ? -1 : (int)(rnd() % NFN);

            switch (how) {
            case 0: n = tm; break;               /* same size */
            case 1: n = prev_m; break;           /* back where it was */
            case 2: n = 1; break;
            case 3: n = tm + 1; break;
            case 4: n = tm > 1 ? tm - 1 : 1; break;
            case 5: n = 0; break;
            default: n = 1 + rnd() % maxm; break;
            }
            if (n != 0 && n != tm) {
                prev_m = tm;
            }
            m_resize(&M, n, fn);
            if (rnd() % 4 == 0) {
                /* the same request again changes nothing */
                m_resize(&M, n, fn);
            }
        } else if (r < 40) {
            if ((e = rpick(0)) != NULL) {
                m_insert(&M, e, rnd() % keys);
            }
        } else if (r < 52) {
            m_find_any(&M, rnd() % (keys + 3));
        } else if (r < 60) {
            if ((e = rpick(1)) != NULL) {
                m_find_elem(&M, e);
            }
        } else if (r < 65) {
            m_find_none(&M, rnd() % (keys + 3));
        } else if (r < 90) {
            if ((e = rpick(1)) != NULL) {
                m_erase(&M, e);
            }
        } else if (r < 92) {
            m_rehash(&M);
        } else if (r < 94) {
            m_foreach(&M, rnd() % 4);
        } else if (r < 97) {
            m_content(&M);
        } else if (r < 98) {
            m_shrink(&M);
        } else if (r < 99) {
            /* the table moves to another object, mid-rehash or not */
            struct cstl_hash * const t = M.h;
            cstl_hash_swap(M.h, spare);
            M.h = spare;
            spare = t;
            REQ(cstl_hash_size(spare) == 0, "swapped-out object not empty");
            check_load(&M);
        } else {
            m_settle(&M);
        }
    }

    snprintf(g_ctx, sizeof(g_ctx), "history %u end", seed);
    m_settle(&M);

    stats->working_ops += M.working_ops;
    stats->finished_ops += M.finished_ops;
    if (M.max_reloc > stats->max_reloc) {
        stats->max_reloc = M.max_reloc;
    }

    m_clear(&M);
    cstl_hash_clear(spare, NULL);
}

/* ------------------------------------------------------------------ */
/* 3. a big table: the work of one operation is not the whole table   */

#define BIGN 6000
static struct elem bpool[BIGN];
static unsigned int bcnt[BIGN];

static void big_table(void)
{
    static const struct { size_t n; int fn; unsigned int ops; } step[] = {
        /* ops: keyed operations before the next request; ~0 = settle */
        { 128, -1, ~0u },        /* grow */
        { 256, F_DIV, 10 },      /* grow, interrupted early */
        { 37, F_MIX, ~0u },      /* shrink, other function */
        { 37, F_REV, 36 },       /* same size, other function */
        { 37, F_MIX, 37 },       /* and back; exactly enough operations */
        { 64, F_DIV, 1 },
        { 37, F_MIX, 0 },        /* back at once */
        { 64, F_DIV, 0 },        /* repeated */
        { 37, F_MIX, 0 },
        { 64, F_DIV, 0 },
        { 1, -1, 5 },            /* everything into one bucket */
        { 2048, F_DIV, ~0u },
        { 2047, F_AUX, 2000 },
        { 2048, F_REV, ~0u },
    };
    DECLARE_CSTL_HASH(h, struct elem, hn);
    struct model M;
    size_t s, i, worst = 0;

    memset(bpool, 0, sizeof(bpool));
    model_init(&M, &h, bcnt, BIGN);

    snprintf(g_ctx, sizeof(g_ctx), "big fill");
    m_resize(&M, 64, F_DIV);
    for (i = 0; i < BIGN; i++) {
        m_insert(&M, &bpool[i], i);
    }

    for (s = 0; s < sizeof(step) / sizeof(step[0]); s++) {
        size_t from;

        snprintf(g_ctx, sizeof(g_ctx), "big step %lu", (unsigned long)s);
        m_resize(&M, step[s].n, step[s].fn);
        from = M.cur_m;
        M.max_reloc = 0;

        if (step[s].ops == ~0u) {
            m_settle(&M);
        } else {
            for (i = 0; i < step[s].ops; i++) {
                const size_t k = (i * 7919 + s) % BIGN;
                switch (i % 3) {
                case 0:
                    m_find_any(&M, k);
                    break;
                case 1:
                    if (bpool[k].in) {
                        m_erase(&M, &bpool[k]);
                    }
                    break;
                default:
                    if (!bpool[k].in) {
                        m_insert(&M, &bpool[k], k);
                    } else {
                        m_find_elem(&M, &bpool[k]);
                    }
                    break;
                }
            }
        }

        /*
         * with evenly spread keys and at least 32 buckets on both
         * sides, no single operation may have moved a sizeable part
         * of the table
         */
        if (from >= 32 && step[s].n >= 32) {
            REQ(M.max_reloc * 4 < M.size,
                "one operation relocated %lu of %lu elements",
                (unsigned long)M.max_reloc, (unsigned long)M.size);
            if (M.max_reloc > worst) {
                worst = M.max_reloc;
            }
        }
    }

    snprintf(g_ctx, sizeof(g_ctx), "big end");
    m_settle(&M);
    printf("big table: %lu working operations, worst relocation %lu of %d\n",
           (unsigned long)M.working_ops, (unsigned long)worst, BIGN);
    m_clear(&M);
}

/* ------------------------------------------------------------------ */
/* 4. default function, boundaries, re-initialisation                 */

static void lookup_once(struct cstl_hash * const h, const size_t k,
                        const int fn, const size_t m, const int present)
{
    const void * e;
    ncalls = 0;
    e = cstl_hash_find(h, k, NULL, NULL);
    REQ((e != NULL) == !!present, "lookup of %lu", (unsigned long)k);
    REQ(ncalls == 1 && calls[0].fn == fn && calls[0].k == k
        && calls[0].m == m, "lookup of %lu: %lu consultations",
        (unsigned long)k, (unsigned long)ncalls);
}

static void load_is(const struct cstl_hash * const h,
                    const size_t size, const size_t n)
{
    volatile float want = (float)size / n;
    volatile float got = cstl_hash_load(h);
    REQ(want == got, "load %g, want %lu/%lu", (double)got,
        (unsigned long)size, (unsigned long)n);
}

static void defaults(void)
{
    static struct elem pool[20];
    struct cstl_hash h;
    size_t i;

    snprintf(g_ctx, sizeof(g_ctx), "defaults");
    memset(pool, 0, sizeof(pool));
    cstl_hash_init(&h, offsetof(struct elem, hn));

    /* n == 0 does nothing at all */
    ncalls = 0;
    cstl_hash_resize(&h, 0, f_div);
    REQ(cstl_hash_size(&h) == 0 && ncalls == 0, "resize(0)");

    /* no function ever given: cstl_hash_mul */
    cstl_hash_resize(&h, 8, NULL);
    for (i = 0; i < 20; i++) {
        pool[i].key = i * 3;
        pool[i].in = 1;
        cstl_hash_insert(&h, i * 3, &pool[i]);
        load_is(&h, i + 1, 8);
    }
    REQ(ncalls == 0, "an instrumented function was used");
    cstl_hash_resize(&h, 8, NULL);
    cstl_hash_resize(&h, 8, cstl_hash_mul);
    load_is(&h, 20, 8);
    for (i = 0; i < 20; i++) {
        REQ(cstl_hash_find(&h, i * 3, NULL, NULL) == &pool[i], "find");
        REQ(cstl_hash_find(&h, i * 3 + 1, NULL, NULL) == NULL, "find");
    }

    /* another function, fewer buckets, forced to completion */
    cstl_hash_resize(&h, 5, f_div);
    load_is(&h, 20, 5);
    cstl_hash_rehash(&h);
    load_is(&h, 20, 5);
    for (i = 0; i < 20; i++) {
        lookup_once(&h, i * 3, F_DIV, 5, 1);
        lookup_once(&h, i * 3 + 2, F_DIV, 5, 0);
    }

    /* what is already there: nothing happens */
    ncalls = 0;
    cstl_hash_resize(&h, 5, NULL);
    cstl_hash_resize(&h, 5, f_div);
    REQ(ncalls == 0, "no-op resize hashed");
    lookup_once(&h, 3, F_DIV, 5, 1);

    /* NULL keeps the function; finished after at most 5 operations */
    cstl_hash_resize(&h, 9, NULL);
    load_is(&h, 20, 9);
    for (i = 0; i < 5; i++) {
        REQ(cstl_hash_find(&h, i * 3, NULL, NULL) == &pool[i], "find");
        load_is(&h, 20, 9);
    }
    for (i = 0; i < 20; i++) {
        lookup_once(&h, i * 3, F_DIV, 9, 1);
    }

    /* NULL while a request is pending keeps the REQUESTED function */
    cstl_hash_resize(&h, 4, f_rev);
    load_is(&h, 20, 4);
    cstl_hash_resize(&h, 6, NULL);
    load_is(&h, 20, 6);
    for (i = 0; i < 4; i++) {
        REQ(cstl_hash_find(&h, i * 3, NULL, NULL) == &pool[i], "find");
    }
    for (i = 0; i < 20; i++) {
        lookup_once(&h, i * 3, F_REV, 6, 1);
    }

    /* a single bucket */
    cstl_hash_resize(&h, 1, NULL);
    load_is(&h, 20, 1);
    for (i = 0; i < 6; i++) {
        REQ(cstl_hash_find(&h, i * 3, NULL, NULL) == &pool[i], "find");
    }
    for (i = 0; i < 20; i++) {
        lookup_once(&h, i * 3, F_REV, 1, 1);
    }
    /* out of it again: one operation is enough */
    cstl_hash_resize(&h, 7, f_mix);
    load_is(&h, 20, 7);
    REQ(cstl_hash_find(&h, 3, NULL, NULL) == &pool[1], "find");
    for (i = 0; i < 20; i++) {
        lookup_once(&h, i * 3, F_MIX, 7, 1);
    }

    /* cleared: as initialised, the default function is back */
    cstl_hash_resize(&h, 3, f_div);
    cstl_hash_clear(&h, NULL);
    cstl_hash_resize(&h, 3, NULL);
    ncalls = 0;
    for (i = 0; i < 20; i++) {
        cstl_hash_insert(&h, i * 3, &pool[i]);
        load_is(&h, i + 1, 3);
    }
    for (i = 0; i < 20; i++) {
        REQ(cstl_hash_find(&h, i * 3, NULL, NULL) == &pool[i], "find");
    }
    REQ(ncalls == 0, "function survived clear");
    cstl_hash_clear(&h, NULL);
}

/* ------------------------------------------------------------------ */
/* 5. a request that cannot be satisfied changes nothing              */

static void unsatisfiable(void)
{
#ifndef HAVE_SANITIZER
    static struct elem pool[12];
    static unsigned int cnt[16];
    struct cstl_hash h;
    struct model M;
    struct rlimit old, lim;
    const size_t huge = (size_t)1 << 27;       /* 2 GiB of buckets */
    size_t i;

    snprintf(g_ctx, sizeof(g_ctx), "unsatisfiable");
    if (sizeof(size_t) < 8 || getrlimit(RLIMIT_AS, &old) != 0) {
        return;
    }
    lim = old;
    lim.rlim_cur = (rlim_t)768 << 20;
    if (old.rlim_max != RLIM_INFINITY && lim.rlim_cur > old.rlim_max) {
        lim.rlim_cur = old.rlim_max;
    }

    memset(pool, 0, sizeof(pool));
    cstl_hash_init(&h, offsetof(struct elem, hn));
    model_init(&M, &h, cnt, 16);
    m_resize(&M, 4, F_DIV);
    for (i = 0; i < 12; i++) {
        m_insert(&M, &pool[i], i);
    }

    if (setrlimit(RLIMIT_AS, &lim) != 0) {
        m_clear(&M);
        return;
    }

    /* nothing pending */
    printf("unsatisfiable request: exercised\n");
    m_resize_fail(&M, huge, F_REV);
    m_find_any(&M, 3);
    /* with a request pending: it stays the pending one */
    m_resize(&M, 8, F_REV);
    m_find_any(&M, 1);
    m_resize_fail(&M, huge, F_MIX);
    m_resize_fail(&M, huge, -1);
    m_find_any(&M, 2);

    setrlimit(RLIMIT_AS, &old);

    m_settle(&M);
    m_resize(&M, 16, F_MIX);
    m_settle(&M);
    m_clear(&M);
#endif
}

/* ------------------------------------------------------------------ */

int main(void)
{
    static const struct alphabet wide = {
        4, { 1, 2, 3, 4 }, 3, { -1, F_DIV, F_REV }, 4
    };
    static const struct alphabet narrow = {
        2, { 1, 3 }, 2, { -1, F_REV }, 2
    };
    static const struct alphabet aux_alpha = {
        2, { 2, 5 }, 2, { -1, F_AUX }, 3
    };
    struct model stats;
    size_t runs = 0;
    unsigned int i;

    aux_setup();

    defaults();
    unsatisfiable();

    for (i = 0; i < 3; i++) {
        runs += small_scope(&wide, 1, i);
        runs += small_scope(&wide, 2, i);
        runs += small_scope(&wide, 3, i);
        runs += small_scope(&narrow, 5, i);
        runs += small_scope(&narrow, 6, i);
        runs += small_scope(&aux_alpha, 4, i);
    }
    runs += small_scope(&wide, 4, 0);
    runs += small_scope(&wide, 4, 2);
    printf("small scope: %lu sequences\n", (unsigned long)runs);

    memset(&stats, 0, sizeof(stats));
    for (i = 0; i < HISTORIES; i++) {
        const size_t keys = (i % 3 == 0) ? 16 : (i % 3 == 1) ? 64 : RKEYS;
        const size_t maxm = (i % 4 == 0) ? 4 : (i % 4 == 1) ? 12 : 48;
        random_history(SEED * 1000u + i, 3000, keys, maxm, &stats);
    }
    printf("random: %lu working and %lu finished operations, "
           "worst relocation %lu\n", (unsigned long)stats.working_ops,
           (unsigned long)stats.finished_ops, (unsigned long)stats.max_reloc);

    big_table();

    cstl_hash_clear(&aux, NULL);
    printf("ok\n");
    return 0;
}
