/*
 * C10: strings equal a reference string after every edit and stay
 * NUL-terminated.
 *
 * Standalone test; uses only the public API of cstl/string.h. The file
 * includes itself twice (once per character width) to instantiate the
 * width-dependent part.
 *
 * Phases (each for narrow and wide strings):
 *   1. boundary checks on fixed strings (positions and counts from
 *      {0, in range, size-1, size, size+1, SIZE_MAX and neighbours}),
 *      aborts verified in forked children (must die of SIGABRT)
 *   2. exhaustive enumeration of short edit sequences over a small
 *      alphabet, compared against a reference model after every edit
 *   3. long random edit sequences, a share of them executed while every
 *      allocation fails (malloc/calloc/realloc are wrapped by the linker):
 *      an edit whose result fits the reported capacity must succeed, one
 *      that does not must abort
 */
#ifndef T_PASS

#define _XOPEN_SOURCE 600

#include <stdio.h>
#include <stdlib.h>
#include <string.h>
#include <wchar.h>
#include <stdint.h>
#include <signal.h>
#include <unistd.h>
#include <sys/types.h>
#include <sys/wait.h>
#include <sys/resource.h>

#include "cstl/string.h"

/* allocation failure injection (gcc ... -Wl,--wrap=malloc,...) */
static volatile int g_fail;
void * __real_malloc(size_t);
void * __real_calloc(size_t, size_t);
void * __real_realloc(void *, size_t);
void * __wrap_malloc(size_t n)
{
    return g_fail ? NULL : __real_malloc(n);
}
void * __wrap_calloc(size_t a, size_t b)
{
    return g_fail ? NULL : __real_calloc(a, b);
}
void * __wrap_realloc(void * p, size_t n)
{
    return (g_fail && n != 0) ? NULL : __real_realloc(p, n);
}

static unsigned long n_checks, n_forks, n_leaves, n_failops;

static void fail_(const char * const what, const int line)
{
    fprintf(stderr, "FAIL line %d: %s\n", line, what);
    exit(1);
}
#define CHECK(C) do { n_checks++; if (!(C)) fail_(#C, __LINE__); } while (0)

static uint64_t rng_s = 0x9E3779B97F4A7C15ull;
static uint64_t rnd(void)
{
    rng_s ^= rng_s << 13;
    rng_s ^= rng_s >> 7;
    rng_s ^= rng_s << 17;
    return rng_s;
}
static size_t rndn(const size_t n)
{
    return (size_t)(rnd() % n);
}

static int sgn(const int x)
{
    return (x > 0) - (x < 0);
}

enum {
    OP_SET_STR, OP_INSERT_CH, OP_INSERT_STR_N, OP_INSERT_STR, OP_INSERT,
    OP_APPEND, OP_APPEND_CH, OP_APPEND_STR_N, OP_APPEND_STR, OP_ERASE,
    OP_SUBSTR, OP_RESIZE, OP_SWAP, OP_CLEAR, OP_RESERVE,
    /* queries; only their abort behaviour is of interest here */
    OP_AT, OP_AT_CONST, OP_FIND_CH, OP_FIND_STR, OP_FIND,
    OP_N,
    OP_NOP      /* filler in the start scripts */
};

typedef struct {
    int op;     /* OP_xxx */
    int k;      /* which of the two strings is the target */
    size_t pos, cnt;
    int lit;    /* index of a literal */
    int chi;    /* index of a character */
} op_t;

enum { RES_OK = 0, RES_ABORT = 1, RES_SKIP = 2 };

#define MAXL    64
#define NLIT    5
#define NCH     4
#define HUGE_N  (SIZE_MAX / 8)
#define IS_HUGE(N) ((N) >= HUGE_N)

#define CAT_(A, B) A##B
#define CAT(A, B) CAT_(A, B)

#define MAXOPS 16384

/* DECLARE_CSTL_STRING pastes its first argument; expand it first */
#define DECL_STR(T, N) DECLARE_CSTL_STRING(T, N)

#define T_PASS

#define TSFX    _n
#define STYPE   string
#define STAG    cstl_string
#define SPFX    cstl_string_
#define CH      char
#define LIT(X)  X
#define CSLEN   strlen
#define CSCHR   strchr
#define CSSTR   strstr
#define CSCMP   strcmp
#include "test.c"
#undef TSFX
#undef STYPE
#undef STAG
#undef SPFX
#undef CH
#undef LIT
#undef CSLEN
#undef CSCHR
#undef CSSTR
#undef CSCMP

#define TSFX    _w
#define STYPE   wstring
#define STAG    cstl_wstring
#define SPFX    cstl_wstring_
#define CH      wchar_t
#define LIT(X)  L##X
#define CSLEN   wcslen
#define CSCHR   wcschr
#define CSSTR   wcsstr
#define CSCMP   wcscmp
#include "test.c"

int main(void)
{
    struct rlimit rl;
    rl.rlim_cur = rl.rlim_max = 0;
    setrlimit(RLIMIT_CORE, &rl);

    run_all_n();
    printf("narrow: checks %lu leaves %lu forks %lu failing-alloc ops %lu\n",
           n_checks, n_leaves, n_forks, n_failops);
    run_all_w();
    printf("wide  : checks %lu leaves %lu forks %lu failing-alloc ops %lu\n",
           n_checks, n_leaves, n_forks, n_failops);
    printf("OK\n");
    return 0;
}

#else /* T_PASS: the width-dependent part */

#define SF(N)   CAT(SPFX, N)
#define ST      struct STAG
#define TN(N)   CAT(N, TSFX)

typedef struct {
    CH c[MAXL + 1];     /* always terminated at c[n] */
    size_t n;
} TN(model_t);

static const CH * const TN(lits)[NLIT] = {
    LIT(""), LIT("a"), LIT("ba"), LIT("abb"), LIT("bbab"),
};
static const CH TN(chars)[NCH] = { LIT('a'), LIT('b'), 0, LIT('z') };

/* ---------------- reference model ---------------- */

static int TN(m_insert)(TN(model_t) * const m, const size_t pos,
                        const CH * const src, const CH fill,
                        const size_t len, const size_t maxl)
{
    size_t i;
    if (pos > m->n) {
        return RES_ABORT;
    }
    if (len == 0) {
        return RES_OK;
    }
    if (IS_HUGE(len)) {
        return RES_ABORT;
    }
    if (len > maxl || m->n + len > maxl) {
        return RES_SKIP;
    }
    memmove(&m->c[pos + len], &m->c[pos], (m->n - pos) * sizeof(CH));
    for (i = 0; i < len; i++) {
        m->c[pos + i] = (src != NULL) ? src[i] : fill;
    }
    m->n += len;
    m->c[m->n] = 0;
    return RES_OK;
}

static int TN(m_apply)(TN(model_t) M[2], const op_t * const o,
                       const size_t maxl)
{
    TN(model_t) * const m = &M[o->k];
    TN(model_t) * const x = &M[1 - o->k];
    const CH * const lit = TN(lits)[o->lit];
    const CH ch = TN(chars)[o->chi];
    size_t cnt = o->cnt;

    switch (o->op) {
    case OP_SET_STR:
        if (CSLEN(lit) > maxl) {
            return RES_SKIP;
        }
        m->n = 0;
        m->c[0] = 0;
        return TN(m_insert)(m, 0, lit, 0, CSLEN(lit), maxl);
    case OP_INSERT_CH:
        return TN(m_insert)(m, o->pos, NULL, ch, cnt, maxl);
    case OP_INSERT_STR_N:
        return TN(m_insert)(m, o->pos, lit, 0, cnt, maxl);
    case OP_INSERT_STR:
        return TN(m_insert)(m, o->pos, lit, 0, CSLEN(lit), maxl);
    case OP_INSERT:
        return TN(m_insert)(m, o->pos, x->c, 0, x->n, maxl);
    case OP_APPEND:
        return TN(m_insert)(m, m->n, x->c, 0, x->n, maxl);
    case OP_APPEND_CH:
        return TN(m_insert)(m, m->n, NULL, ch, cnt, maxl);
    case OP_APPEND_STR_N:
        return TN(m_insert)(m, m->n, lit, 0, cnt, maxl);
    case OP_APPEND_STR:
        return TN(m_insert)(m, m->n, lit, 0, CSLEN(lit), maxl);
    case OP_ERASE:
        if (o->pos >= m->n) {
            return RES_ABORT;
        }
        if (cnt > m->n - o->pos) {
            cnt = m->n - o->pos;
        }
        memmove(&m->c[o->pos], &m->c[o->pos + cnt],
                (m->n - o->pos - cnt) * sizeof(CH));
        m->n -= cnt;
        m->c[m->n] = 0;
        return RES_OK;
    case OP_SUBSTR:
        if (o->pos >= m->n) {
            return RES_ABORT;
        }
        if (cnt > m->n - o->pos) {
            cnt = m->n - o->pos;
        }
        memcpy(x->c, &m->c[o->pos], cnt * sizeof(CH));
        x->n = cnt;
        x->c[cnt] = 0;
        return RES_OK;
    case OP_RESIZE:
        if (IS_HUGE(cnt)) {
            return RES_ABORT;
        }
        if (cnt > maxl) {
            return RES_SKIP;
        }
        while (m->n < cnt) {
            m->c[m->n++] = 0;
        }
        m->n = cnt;
        m->c[cnt] = 0;
        return RES_OK;
    case OP_SWAP: {
        const TN(model_t) t = *m;
        *m = *x;
        *x = t;
        return RES_OK;
    }
    case OP_CLEAR:
        m->n = 0;
        m->c[0] = 0;
        return RES_OK;
    case OP_RESERVE:
        /* never visible, never aborts, whatever the amount */
        return RES_OK;
    case OP_AT:
    case OP_AT_CONST:
    case OP_FIND_CH:
    case OP_FIND_STR:
    case OP_FIND:
        return (o->pos >= m->n) ? RES_ABORT : RES_OK;
    case OP_NOP:
        return RES_OK;
    }
    return RES_SKIP;
}

/* ---------------- the library ---------------- */

static void TN(r_apply)(ST * const X[2], const op_t * const o)
{
    ST * const s = X[o->k];
    ST * const x = X[1 - o->k];
    const CH * const lit = TN(lits)[o->lit];
    const CH ch = TN(chars)[o->chi];

    switch (o->op) {
    case OP_SET_STR:        SF(set_str)(s, lit); break;
    case OP_INSERT_CH:      SF(insert_ch)(s, o->pos, o->cnt, ch); break;
    case OP_INSERT_STR_N:   SF(insert_str_n)(s, o->pos, lit, o->cnt); break;
    case OP_INSERT_STR:     SF(insert_str)(s, o->pos, lit); break;
    case OP_INSERT:         SF(insert)(s, o->pos, x); break;
    case OP_APPEND:         SF(append)(s, x); break;
    case OP_APPEND_CH:      SF(append_ch)(s, o->cnt, ch); break;
    case OP_APPEND_STR_N:   SF(append_str_n)(s, lit, o->cnt); break;
    case OP_APPEND_STR:     SF(append_str)(s, lit); break;
    case OP_ERASE:          SF(erase)(s, o->pos, o->cnt); break;
    case OP_SUBSTR:         SF(substr)(s, o->pos, o->cnt, x); break;
    case OP_RESIZE:         SF(resize)(s, o->cnt); break;
    case OP_SWAP:           SF(swap)(s, x); break;
    case OP_CLEAR:          SF(clear)(s); break;
    case OP_RESERVE:        SF(reserve)(s, o->cnt); break;
    case OP_AT:             (void)SF(at)(s, o->pos); break;
    case OP_AT_CONST:       (void)SF(at_const)(s, o->pos); break;
    case OP_FIND_CH:        (void)SF(find_ch)(s, ch, o->pos); break;
    case OP_FIND_STR:       (void)SF(find_str)(s, lit, o->pos); break;
    case OP_FIND:           (void)SF(find)(s, x, o->pos); break;
    default:                break;
    }
}

/* the child performs the operation and must die of SIGABRT */
static void TN(expect_abort)(ST * const X[2], const op_t * const o,
                             const int fail)
{
    int st = 0;
    const pid_t pid = fork();
    CHECK(pid >= 0);
    if (pid == 0) {
        g_fail = fail;
        TN(r_apply)(X, o);
        _exit(0);
    }
    n_forks++;
    CHECK(waitpid(pid, &st, 0) == pid);
    if (!(WIFSIGNALED(st) && WTERMSIG(st) == SIGABRT)) {
        fprintf(stderr,
                "op %d k %d pos %zu cnt %zu lit %d ch %d fail %d: "
                "expected SIGABRT, status %#x\n",
                o->op, o->k, o->pos, o->cnt, o->lit, o->chi, fail, st);
    }
    CHECK(WIFSIGNALED(st) && WTERMSIG(st) == SIGABRT);
}

/*
 * size, at, at_const, str must report the model's characters, str must
 * be followed by a NUL; find and compare must agree with the C library
 * run on the model's characters. level 0: content only, 1: plus finds
 * at a few positions, 2: plus finds at all positions
 */
static void TN(check1)(const ST * const s, const TN(model_t) * const m,
                       const ST * const other,
                       const TN(model_t) * const mo,
                       const int level)
{
    const size_t n = SF(size)(s);
    const CH * const str = SF(str)(s);
    size_t i, step;

    CHECK(n == m->n);
    CHECK(str != NULL);
    CHECK(SF(capacity)(s) >= n);
    for (i = 0; i < n; i++) {
        CHECK(str[i] == m->c[i]);
        CHECK(*SF(at_const)(s, i) == m->c[i]);
        CHECK(SF(at_const)(s, i) == str + i);
        CHECK(SF(at)((ST *)s, i) == str + i);
    }
    CHECK(str[n] == 0);
    CHECK(SF(nul) == 0);
    if (n > 0) {
        CHECK(SF(data)((ST *)s) == str);
    }

    CHECK(SF(compare_str)(s, m->c) == 0);
    CHECK(sgn(SF(compare)(s, other)) == sgn(CSCMP(m->c, mo->c)));
    CHECK(sgn(SF(compare)(other, s)) == sgn(CSCMP(mo->c, m->c)));
    CHECK(SF(compare)(s, s) == 0);
    for (i = 0; i < NLIT; i++) {
        CHECK(sgn(SF(compare_str)(s, TN(lits)[i]))
              == sgn(CSCMP(m->c, TN(lits)[i])));
    }

    if (level == 0 || n == 0) {
        return;
    }
    step = (level >= 2 || n < 4) ? 1 : n / 3;
    for (i = 0; i < n; i += step) {
        unsigned j;
        for (j = 0; j < NCH; j++) {
            const CH * const f = CSCHR(m->c + i, TN(chars)[j]);
            const ssize_t exp =
                (f != NULL && f != m->c + n) ? (ssize_t)(f - m->c) : -1;
            CHECK(SF(find_ch)(s, TN(chars)[j], i) == exp);
        }
        for (j = 0; j < NLIT; j++) {
            const CH * const f = CSSTR(m->c + i, TN(lits)[j]);
            const ssize_t exp = (f != NULL) ? (ssize_t)(f - m->c) : -1;
            CHECK(SF(find_str)(s, TN(lits)[j], i) == exp);
        }
        {
            const CH * const f = CSSTR(m->c + i, mo->c);
            const ssize_t exp = (f != NULL) ? (ssize_t)(f - m->c) : -1;
            CHECK(SF(find)(s, other, i) == exp);
        }
    }
    /* the last position, always */
    {
        const CH * const f = CSCHR(m->c + n - 1, TN(chars)[0]);
        const ssize_t exp =
            (f != NULL && f != m->c + n) ? (ssize_t)(f - m->c) : -1;
        CHECK(SF(find_ch)(s, TN(chars)[0], n - 1) == exp);
    }
}

static void TN(check)(ST * const X[2], const TN(model_t) M[2],
                      const int level)
{
    TN(check1)(X[0], &M[0], X[1], &M[1], level);
    TN(check1)(X[1], &M[1], X[0], &M[0], level);
}

/* ---------------- operation generators ---------------- */

static size_t TN(positions)(const size_t n, const int rich,
                            size_t * const p)
{
    size_t c = 0, i;
    if (rich) {
        for (i = 0; i <= n + 1; i++) {
            p[c++] = i;
        }
        p[c++] = SIZE_MAX;
        p[c++] = SIZE_MAX - 1;
        p[c++] = SIZE_MAX / 2 + 1;
    } else {
        p[c++] = 0;
        if (n > 1) {
            p[c++] = n / 2;
        }
        if (n > 0) {
            p[c++] = n;
        }
    }
    return c;
}

static size_t TN(addop)(op_t * const ops, size_t c,
                        const int op, const int k,
                        const size_t pos, const size_t cnt,
                        const int lit, const int chi)
{
    if (c < MAXOPS) {
        ops[c].op = op;
        ops[c].k = k;
        ops[c].pos = pos;
        ops[c].cnt = cnt;
        ops[c].lit = lit;
        ops[c].chi = chi;
        c++;
    }
    return c;
}

/* every candidate operation at the state M (rich) or a spread of them */
static size_t TN(gen)(const TN(model_t) M[2], const int rich,
                      op_t * const ops)
{
    size_t c = 0;
    int k;

    for (k = 0; k < 2; k++) {
        const size_t n = M[k].n;
        size_t P[MAXL + 8];
        const size_t np = TN(positions)(n, rich, P);
        size_t i, j;
        int l, h;

        if (!rich && k == 1) {
            /* the second string only gets a few shapes */
            c = TN(addop)(ops, c, OP_SET_STR, k, 0, 0, 2, 0);
            c = TN(addop)(ops, c, OP_RESIZE, k, 0, 1, 0, 0);
            c = TN(addop)(ops, c, OP_SWAP, k, 0, 0, 0, 0);
            c = TN(addop)(ops, c, OP_CLEAR, k, 0, 0, 0, 0);
            continue;
        }

        for (l = 0; l < (rich ? 4 : 3); l++) {
            c = TN(addop)(ops, c, OP_SET_STR, k, 0, 0, l, 0);
        }

        for (i = 0; i < np; i++) {
            const size_t pos = P[i];
            const size_t icnt_rich[] = {
                0, 1, 2, SIZE_MAX, SIZE_MAX - 1,
                SIZE_MAX - n, SIZE_MAX - n - 1, SIZE_MAX - n + 1,
                SIZE_MAX / 2, SIZE_MAX / sizeof(CH),
                SIZE_MAX / sizeof(CH) - n, SIZE_MAX / sizeof(CH) - n - 1,
            };
            const size_t icnt_lean[] = { 1, 2 };
            const size_t * const icnt = rich ? icnt_rich : icnt_lean;
            const size_t nicnt = rich
                ? sizeof(icnt_rich) / sizeof(icnt_rich[0])
                : sizeof(icnt_lean) / sizeof(icnt_lean[0]);
            const size_t avail = (pos < n) ? n - pos : 0;
            const size_t ecnt_rich[] = {
                0, 1, 2, avail > 0 ? avail - 1 : 0, avail, avail + 1,
                SIZE_MAX, SIZE_MAX - 1, SIZE_MAX - pos, SIZE_MAX - n,
                SIZE_MAX / 2 + 1,
            };
            const size_t ecnt_lean[] = { 1, SIZE_MAX };
            const size_t * const ecnt = rich ? ecnt_rich : ecnt_lean;
            const size_t necnt = rich
                ? sizeof(ecnt_rich) / sizeof(ecnt_rich[0])
                : sizeof(ecnt_lean) / sizeof(ecnt_lean[0]);

            for (j = 0; j < nicnt; j++) {
                for (h = 0; h < (rich ? 3 : 1); h++) {
                    if (IS_HUGE(icnt[j]) && h > 0) {
                        continue;
                    }
                    c = TN(addop)(ops, c, OP_INSERT_CH, k,
                                  pos, icnt[j], 0, (h + (int)j) % 3);
                }
            }
            for (l = 0; l < (rich ? 4 : 3); l++) {
                const size_t ll = CSLEN(TN(lits)[l]);
                if (rich || l == 2) {
                    c = TN(addop)(ops, c, OP_INSERT_STR, k, pos, 0, l, 0);
                }
                if (rich) {
                    for (j = 0; j <= ll; j++) {
                        c = TN(addop)(ops, c, OP_INSERT_STR_N, k,
                                      pos, j, l, 0);
                    }
                    /* aborts before a single character is read */
                    c = TN(addop)(ops, c, OP_INSERT_STR_N, k,
                                  pos, SIZE_MAX, l, 0);
                    c = TN(addop)(ops, c, OP_INSERT_STR_N, k,
                                  pos, SIZE_MAX - n, l, 0);
                    c = TN(addop)(ops, c, OP_INSERT_STR_N, k,
                                  pos, SIZE_MAX / sizeof(CH) - n, l, 0);
                }
            }
            c = TN(addop)(ops, c, OP_INSERT, k, pos, 0, 0, 0);

            for (j = 0; j < necnt; j++) {
                size_t d;
                int dup = 0;
                for (d = 0; d < j; d++) {
                    dup = dup || (ecnt[d] == ecnt[j]);
                }
                if (dup) {
                    continue;
                }
                c = TN(addop)(ops, c, OP_ERASE, k, pos, ecnt[j], 0, 0);
                c = TN(addop)(ops, c, OP_SUBSTR, k, pos, ecnt[j], 0, 0);
            }

            if (rich && (pos >= n || i == 0)) {
                c = TN(addop)(ops, c, OP_AT, k, pos, 0, 0, 0);
                c = TN(addop)(ops, c, OP_AT_CONST, k, pos, 0, 0, 0);
                c = TN(addop)(ops, c, OP_FIND_CH, k, pos, 0, 0, 0);
                c = TN(addop)(ops, c, OP_FIND_CH, k, pos, 0, 0, 2);
                c = TN(addop)(ops, c, OP_FIND_STR, k, pos, 0, 1, 0);
                c = TN(addop)(ops, c, OP_FIND_STR, k, pos, 0, 0, 0);
                c = TN(addop)(ops, c, OP_FIND, k, pos, 0, 0, 0);
            }
        }

        c = TN(addop)(ops, c, OP_APPEND, k, 0, 0, 0, 0);
        c = TN(addop)(ops, c, OP_APPEND_CH, k, 0, 1, 0, 1);
        c = TN(addop)(ops, c, OP_APPEND_STR, k, 0, 0, 2, 0);
        c = TN(addop)(ops, c, OP_SWAP, k, 0, 0, 0, 0);
        c = TN(addop)(ops, c, OP_CLEAR, k, 0, 0, 0, 0);
        c = TN(addop)(ops, c, OP_RESIZE, k, 0, n + 1, 0, 0);
        if (n > 0) {
            c = TN(addop)(ops, c, OP_RESIZE, k, 0, n - 1, 0, 0);
        }
        if (rich) {
            const size_t rs[] = {
                0, 1, n, n + 2, SIZE_MAX, SIZE_MAX - 1, SIZE_MAX - 2,
                SIZE_MAX / 2, SIZE_MAX / 2 + 1,
                SIZE_MAX / sizeof(CH), SIZE_MAX / sizeof(CH) - 1,
                SIZE_MAX / sizeof(CH) - 2, SIZE_MAX / sizeof(CH) + 1,
            };
            const size_t rv[] = {
                0, 1, n, n + 1, n + 5, SIZE_MAX, SIZE_MAX - 1,
                SIZE_MAX / 2, SIZE_MAX / sizeof(CH),
                SIZE_MAX / sizeof(CH) - 1, SIZE_MAX / sizeof(CH) + 1,
            };
            for (j = 0; j < sizeof(rs) / sizeof(rs[0]); j++) {
                c = TN(addop)(ops, c, OP_RESIZE, k, 0, rs[j], 0, 0);
            }
            for (j = 0; j < sizeof(rv) / sizeof(rv[0]); j++) {
                c = TN(addop)(ops, c, OP_RESERVE, k, 0, rv[j], 0, 0);
            }
            c = TN(addop)(ops, c, OP_APPEND_CH, k, 0, 0, 0, 0);
            c = TN(addop)(ops, c, OP_APPEND_CH, k, 0, 2, 0, 2);
            c = TN(addop)(ops, c, OP_APPEND_CH, k, 0, SIZE_MAX, 0, 0);
            c = TN(addop)(ops, c, OP_APPEND_CH, k, 0, SIZE_MAX - n, 0, 0);
            c = TN(addop)(ops, c, OP_APPEND_CH, k,
                          0, SIZE_MAX - n - 1, 0, 0);
            c = TN(addop)(ops, c, OP_APPEND_STR_N, k, 0, 2, 3, 0);
            c = TN(addop)(ops, c, OP_APPEND_STR_N, k, 0, 0, 3, 0);
            c = TN(addop)(ops, c, OP_APPEND_STR_N, k, 0, SIZE_MAX, 3, 0);
            c = TN(addop)(ops, c, OP_APPEND_STR, k, 0, 0, 0, 0);
            c = TN(addop)(ops, c, OP_APPEND_STR, k, 0, 0, 3, 0);
        } else {
            c = TN(addop)(ops, c, OP_RESERVE, k, 0, n + 3, 0, 0);
        }
    }

    return c;
}

/* ---------------- exhaustive enumeration ---------------- */

#define NSTART 11
#define STARTLEN 3
static const op_t TN(starts)[NSTART][STARTLEN] = {
    /* {op, k, pos, cnt, lit, chi} */
    { { OP_NOP, 0, 0, 0, 0, 0 }, { OP_NOP, 0, 0, 0, 0, 0 },
      { OP_NOP, 0, 0, 0, 0, 0 } },
    { { OP_SET_STR, 0, 0, 0, 2, 0 }, { OP_NOP, 0, 0, 0, 0, 0 },
      { OP_NOP, 0, 0, 0, 0, 0 } },
    { { OP_RESERVE, 0, 0, 6, 0, 0 }, { OP_RESERVE, 1, 0, 1, 0, 0 },
      { OP_NOP, 0, 0, 0, 0, 0 } },
    { { OP_SET_STR, 0, 0, 0, 3, 0 }, { OP_SET_STR, 1, 0, 0, 1, 0 },
      { OP_NOP, 0, 0, 0, 0, 0 } },
    { { OP_SET_STR, 0, 0, 0, 4, 0 }, { OP_CLEAR, 0, 0, 0, 0, 0 },
      { OP_RESIZE, 1, 0, 2, 0, 0 } },
    { { OP_RESIZE, 0, 0, 0, 0, 0 }, { OP_SET_STR, 1, 0, 0, 4, 0 },
      { OP_NOP, 0, 0, 0, 0, 0 } },
    { { OP_SET_STR, 0, 0, 0, 4, 0 }, { OP_APPEND_STR, 0, 0, 0, 3, 0 },
      { OP_SET_STR, 1, 0, 0, 2, 0 } },
    { { OP_SET_STR, 0, 0, 0, 4, 0 }, { OP_APPEND_CH, 0, 0, 6, 0, 1 },
      { OP_ERASE, 0, 1, 7, 0, 0 } },
    /* longer ones, around 16 characters (resp. 16 bytes) */
    { { OP_SET_STR, 0, 0, 0, 4, 0 }, { OP_APPEND_CH, 0, 0, 10, 0, 1 },
      { OP_SET_STR, 1, 0, 0, 2, 0 } },
    { { OP_SET_STR, 0, 0, 0, 4, 0 }, { OP_APPEND_CH, 0, 0, 12, 0, 0 },
      { OP_ERASE, 0, 2, 3, 0, 0 } },
    { { OP_SET_STR, 0, 0, 0, 3, 0 }, { OP_APPEND_CH, 1, 0, 15, 0, 1 },
      { OP_INSERT_STR, 1, 15, 0, 1, 0 } },
};
#define NSTART_SHORT 8

typedef struct {
    int start;
    int depth;          /* number of enumerated operations */
    int rich[4];        /* per level */
    size_t maxl;
    op_t path[4];
    unsigned long nabort;
} TN(dfs_t);

/*
 * build a fresh pair of strings - one from the static initialiser, one
 * from cstl_STRING_init() run on garbage - replay the start script and
 * the first 'len' operations of the path; then either expect the next
 * operation to abort, or perform it and compare with the model
 */
static void TN(leaf)(TN(dfs_t) * const d, const int len,
                     const op_t * const last, const int last_aborts,
                     const TN(model_t) Mexp[2])
{
    DECL_STR(STYPE, a);
    ST b;
    ST * X[2];
    int i;

    memset(&b, 0xA5, sizeof(b));
    SF(init)(&b);
    X[0] = &a;
    X[1] = &b;

    for (i = 0; i < STARTLEN; i++) {
        TN(r_apply)(X, &TN(starts)[d->start][i]);
    }
    for (i = 0; i < len; i++) {
        TN(r_apply)(X, &d->path[i]);
    }
    if (last_aborts) {
        TN(expect_abort)(X, last, 0);
    } else {
        TN(r_apply)(X, last);
        TN(check)(X, Mexp, 2);
        n_leaves++;
    }

    SF(clear)(&a);
    SF(clear)(&b);
    CHECK(SF(size)(&a) == 0 && SF(size)(&b) == 0);
    CHECK(*SF(str)(&a) == 0 && *SF(str)(&b) == 0);
}

static void TN(dfs)(TN(dfs_t) * const d, const int level,
                    const TN(model_t) M[2])
{
    op_t * const ops = malloc(MAXOPS * sizeof(*ops));
    size_t nops, i;

    CHECK(ops != NULL);
    nops = TN(gen)(M, d->rich[level], ops);
    CHECK(nops < MAXOPS);

    for (i = 0; i < nops; i++) {
        TN(model_t) N[2];
        int r;
        N[0] = M[0];
        N[1] = M[1];
        r = TN(m_apply)(N, &ops[i], d->maxl);
        if (r == RES_SKIP) {
            continue;
        }
        if (r == RES_ABORT) {
            /*
             * forks are expensive: all of the first ones,
             * then a thinning sample
             */
            const unsigned long c = d->nabort++;
            if (c < 120 || c % 997 == 0) {
                TN(leaf)(d, level, &ops[i], 1, NULL);
            }
            continue;
        }
        TN(leaf)(d, level, &ops[i], 0, N);
        if (level + 1 < d->depth) {
            d->path[level] = ops[i];
            TN(dfs)(d, level + 1, N);
        }
    }

    free(ops);
}

static void TN(exhaustive)(const int start, const int depth,
                           const int r0, const int r1, const int r2,
                           const size_t maxl)
{
    TN(dfs_t) d;
    TN(model_t) M[2];
    int i;

    memset(&d, 0, sizeof(d));
    d.start = start;
    d.depth = depth;
    d.rich[0] = r0;
    d.rich[1] = r1;
    d.rich[2] = r2;
    d.maxl = maxl;

    memset(M, 0, sizeof(M));
    for (i = 0; i < STARTLEN; i++) {
        CHECK(TN(m_apply)(M, &TN(starts)[start][i], MAXL) == RES_OK);
    }
    TN(dfs)(&d, 0, M);
}

/* ---------------- fixed boundary cases ---------------- */

static void TN(boundaries)(void)
{
    DECL_STR(STYPE, s);
    DECL_STR(STYPE, t);
    ST * X[2];
    TN(model_t) M[2];
    op_t o;
    size_t n;

    X[0] = &s;
    X[1] = &t;
    memset(M, 0, sizeof(M));
    memset(&o, 0, sizeof(o));

    /* an untouched string */
    TN(check)(X, M, 2);
    CHECK(SF(str)(&s)[0] == 0);
    o.op = OP_AT; o.pos = 0;
    TN(expect_abort)(X, &o, 0);
    o.op = OP_ERASE; o.pos = 0; o.cnt = 0;
    TN(expect_abort)(X, &o, 0);
    o.op = OP_SUBSTR; o.pos = 0; o.cnt = SIZE_MAX;
    TN(expect_abort)(X, &o, 0);
    o.op = OP_FIND_CH; o.pos = 0;
    TN(expect_abort)(X, &o, 0);
    o.op = OP_INSERT_CH; o.pos = 1; o.cnt = 0;
    TN(expect_abort)(X, &o, 0);
    o.op = OP_INSERT_STR; o.pos = 1; o.lit = 0;
    TN(expect_abort)(X, &o, 0);

    /* reserved but empty: still the empty string */
    SF(reserve)(&s, 10);
    TN(check)(X, M, 2);
    CHECK(SF(capacity)(&s) >= 10);
    CHECK(SF(str)(&s)[0] == 0);
    o.op = OP_AT; o.pos = 0;
    TN(expect_abort)(X, &o, 0);

    /* quiet failures of reserve leave everything alone */
    SF(set_str)(&s, TN(lits)[4]);
    o.op = OP_SET_STR; o.k = 0; o.lit = 4;
    TN(m_apply)(M, &o, MAXL);
    SF(reserve)(&s, SIZE_MAX);
    SF(reserve)(&s, SIZE_MAX - 1);
    SF(reserve)(&s, SIZE_MAX / 2);
    SF(reserve)(&s, SIZE_MAX / sizeof(CH));
    SF(reserve)(&s, SIZE_MAX / sizeof(CH) - 1);
    TN(check)(X, M, 2);

    /* counts: truncated, however large */
    for (n = 0; n < 4; n++) {
        const size_t big[] = {
            4 - n, 5 - n, 100, SIZE_MAX, SIZE_MAX - 1, SIZE_MAX - n,
            SIZE_MAX - n - 1, SIZE_MAX / 2, SIZE_MAX / 2 + 1,
        };
        size_t j;
        for (j = 0; j < sizeof(big) / sizeof(big[0]); j++) {
            SF(substr)(&s, n, big[j], &t);
            CHECK(SF(size)(&t) == 4 - n);
            CHECK(CSCMP(SF(str)(&t), TN(lits)[4] + n) == 0);
            CHECK(SF(str)(&t)[4 - n] == 0);

            SF(set_str)(&t, TN(lits)[4]);
            SF(erase)(&t, n, big[j]);
            CHECK(SF(size)(&t) == n);
            CHECK(SF(str)(&t)[n] == 0);
            CHECK(memcmp(SF(str)(&t), TN(lits)[4], n * sizeof(CH)) == 0);
        }
    }

    /* resize: shrinking keeps the head, growing adds NULs */
    SF(resize)(&s, 2);
    CHECK(SF(size)(&s) == 2 && SF(str)(&s)[2] == 0);
    CHECK(SF(str)(&s)[0] == LIT('b') && SF(str)(&s)[1] == LIT('b'));
    SF(resize)(&s, 6);
    CHECK(SF(size)(&s) == 6);
    for (n = 2; n <= 6; n++) {
        CHECK(SF(str)(&s)[n] == 0);
    }
    CHECK(*SF(at)(&s, 5) == 0);
    *SF(at)(&s, 5) = LIT('q');
    CHECK(SF(str)(&s)[5] == LIT('q') && SF(str)(&s)[6] == 0);
    /* writes through at() survive further edits */
    SF(insert_ch)(&s, 0, 1, LIT('x'));
    CHECK(SF(size)(&s) == 7);
    CHECK(*SF(at_const)(&s, 6) == LIT('q') && SF(str)(&s)[7] == 0);
    CHECK(*SF(at_const)(&s, 0) == LIT('x'));

    /* a long string: many steps of growth one character at a time */
    SF(clear)(&s);
    for (n = 0; n < 3000; n++) {
        SF(append_ch)(&s, 1, (n % 2) ? LIT('b') : LIT('a'));
        CHECK(SF(size)(&s) == n + 1);
        CHECK(SF(str)(&s)[n + 1] == 0);
        CHECK(SF(str)(&s)[n / 2] == ((n / 2) % 2 ? LIT('b') : LIT('a')));
    }
    for (n = 0; n < 3000; n++) {
        CHECK(*SF(at)(&s, n) == ((n % 2) ? LIT('b') : LIT('a')));
    }
    SF(substr)(&s, 1, SIZE_MAX, &t);
    CHECK(SF(size)(&t) == 2999);
    CHECK(SF(compare_str)(&t, SF(str)(&s) + 1) == 0);
    SF(swap)(&s, &t);
    CHECK(SF(size)(&s) == 2999 && SF(size)(&t) == 3000);
    CHECK(SF(str)(&s)[2999] == 0 && SF(str)(&t)[3000] == 0);
    CHECK(SF(str)(&s)[0] == LIT('b') && SF(str)(&t)[0] == LIT('a'));
    SF(erase)(&t, 1, 2998);
    CHECK(SF(size)(&t) == 2 && SF(str)(&t)[2] == 0);
    CHECK(SF(str)(&t)[0] == LIT('a') && SF(str)(&t)[1] == LIT('b'));
    SF(insert)(&t, 1, &s);
    CHECK(SF(size)(&t) == 3001 && SF(str)(&t)[3001] == 0);
    CHECK(SF(str)(&t)[0] == LIT('a') && SF(str)(&t)[3000] == LIT('b'));
    CHECK(memcmp(SF(str)(&t) + 1, SF(str)(&s), 2999 * sizeof(CH)) == 0);

    SF(clear)(&s);
    SF(clear)(&t);
    CHECK(SF(size)(&s) == 0 && SF(str)(&s)[0] == 0);
    CHECK(SF(size)(&t) == 0 && SF(str)(&t)[0] == 0);
}

/* ---------------- random sequences, allocation failures ----------- */

static size_t TN(rndpos)(const size_t n)
{
    const unsigned r = (unsigned)rndn(40);
    switch (r) {
    case 0: return n + 1;
    case 1: return SIZE_MAX;
    case 2: return SIZE_MAX - rndn(3);
    case 3: return n + 1 + rndn(5);
    case 4: case 5: case 6: return n;
    case 7: case 8: return n > 0 ? n - 1 : 0;
    case 9: case 10: return 0;
    default: return rndn(n + 1);
    }
}

static size_t TN(rndcnt)(const size_t n, const int truncating)
{
    const unsigned r = (unsigned)rndn(40);
    if (truncating) {
        switch (r) {
        case 0: return SIZE_MAX;
        case 1: return SIZE_MAX - rndn(4);
        case 2: return SIZE_MAX - n;
        case 3: return n + rndn(3);
        case 4: return SIZE_MAX / 2 + rndn(3);
        default: break;
        }
    } else {
        switch (r) {
        case 0: return SIZE_MAX;
        case 1: return SIZE_MAX - n - rndn(3);
        case 2: return SIZE_MAX / sizeof(CH) - n - rndn(3);
        default: break;
        }
    }
    return (r < 30) ? rndn(4) : rndn(12);
}

static void TN(random_run)(const unsigned seqs, const unsigned len,
                           const size_t maxl)
{
    unsigned q;

    for (q = 0; q < seqs; q++) {
        DECL_STR(STYPE, a);
        ST b;
        ST * X[2];
        TN(model_t) M[2];
        unsigned step;
        const unsigned failpct = (q % 3 == 0) ? 25 : (q % 3 == 1) ? 3 : 0;

        memset(&b, 0x5A, sizeof(b));
        SF(init)(&b);
        X[0] = &a;
        X[1] = &b;
        memset(M, 0, sizeof(M));

        for (step = 0; step < len; step++) {
            static const int weights[OP_N] = {
                3, 8, 6, 4, 5, 3, 5, 3, 3, 8, 5, 5, 2, 1, 3,
                1, 1, 1, 1, 1,
            };
            TN(model_t) N[2];
            op_t o;
            int r, fail, tot = 0, w, i;
            size_t cap, newlen;
            ST * grown;

            for (i = 0; i < OP_N; i++) {
                tot += weights[i];
            }
            w = (int)rndn((size_t)tot);
            for (i = 0; w >= weights[i]; i++) {
                w -= weights[i];
            }
            memset(&o, 0, sizeof(o));
            o.op = i;
            o.k = (int)rndn(2);
            o.lit = (int)rndn(NLIT);
            o.chi = (int)rndn(3);
            o.pos = TN(rndpos)(M[o.k].n);
            switch (o.op) {
            case OP_ERASE:
            case OP_SUBSTR:
                o.cnt = TN(rndcnt)(M[o.k].n, 1);
                break;
            case OP_INSERT_STR_N:
            case OP_APPEND_STR_N:
                o.cnt = rndn(CSLEN(TN(lits)[o.lit]) + 1);
                if (rndn(40) == 0) {
                    o.cnt = SIZE_MAX - rndn(3);
                }
                break;
            case OP_RESIZE:
                o.cnt = (rndn(30) == 0)
                    ? SIZE_MAX / (1 + rndn(4)) - rndn(3)
                    : rndn(M[o.k].n + 6);
                break;
            case OP_RESERVE:
                o.cnt = (rndn(10) == 0)
                    ? SIZE_MAX / (1 + rndn(4)) - rndn(3)
                    : rndn(2 * maxl);
                break;
            default:
                o.cnt = TN(rndcnt)(M[o.k].n, 0);
                break;
            }

            N[0] = M[0];
            N[1] = M[1];
            r = TN(m_apply)(N, &o, maxl);
            if (r == RES_SKIP) {
                continue;
            }
            if (r == RES_ABORT) {
                /* forks are expensive: one in three */
                if (rndn(3) == 0) {
                    TN(expect_abort)(X, &o, (int)rndn(2));
                }
                continue;
            }

            /*
             * with every allocation failing, an edit whose result fits
             * the capacity the string reports must succeed, and one
             * whose result does not fit must abort. (a capacity of 0 is
             * left alone: whether a terminator then needs storage is
             * the library's business)
             */
            fail = (rndn(100) < failpct);
            grown = (o.op == OP_SUBSTR) ? X[1 - o.k] : X[o.k];
            newlen = (o.op == OP_SUBSTR) ? N[1 - o.k].n : N[o.k].n;
            cap = SF(capacity)(grown);
            if (o.op == OP_SWAP || o.op == OP_CLEAR
                || o.op == OP_RESERVE || o.op >= OP_AT) {
                /* never need memory */
            } else if (fail && newlen > cap) {
                TN(expect_abort)(X, &o, 1);
                n_failops++;
                continue;
            } else if (fail && cap == 0) {
                fail = 0;
            }

            g_fail = fail;
            TN(r_apply)(X, &o);
            g_fail = 0;
            n_failops += (unsigned)fail;
            M[0] = N[0];
            M[1] = N[1];
            TN(check)(X, M, (step % 8 == 0) ? 1 : 0);
            n_leaves++;
        }

        TN(check)(X, M, 2);
        SF(clear)(&a);
        SF(clear)(&b);
        memset(M, 0, sizeof(M));
        TN(check)(X, M, 2);
    }
}

static void TN(run_all)(void)
{
    int s;

    TN(boundaries)();

    /* two operations, every candidate at both levels */
    for (s = 0; s < NSTART_SHORT; s++) {
        TN(exhaustive)(s, 2, 1, 1, 0, 12);
    }
    /* three operations: a spread, a spread, then every candidate */
    for (s = 0; s < NSTART_SHORT; s += 2) {
        TN(exhaustive)(s, 3, 0, 0, 1, 14);
    }
    /* the longer starts: every candidate; a spread, then every candidate */
    for (s = NSTART_SHORT; s < NSTART; s++) {
        TN(exhaustive)(s, 1, 1, 0, 0, 24);
        TN(exhaustive)(s, 2, 0, 1, 0, 24);
    }

    TN(random_run)(150, 250, 40);
    TN(random_run)(30, 400, MAXL);
}

#undef SF
#undef ST
#undef TN

#endif /* T_PASS */
