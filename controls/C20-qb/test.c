/*
 * C20 / b: bitwise-copied smart pointers are caught, properly moved ones
 * are not.
 *
 * Stray copies: for every public function that takes a guarded, unique,
 * shared or weak pointer or an array object, for each argument position,
 * for each state of the original (empty, owning, shared, weak-only) and for
 * both ways of making the copy (struct assignment, memcpy), a child process
 * makes the copy and calls the function on it. Functions that read, transfer
 * or release the pointer must die of SIGABRT; the functions that only
 * (re)initialise the object (init, set, copy-destination) must return, after
 * which the originals must still work and wind down without leak or double
 * free (allocator wrapped with ld --wrap). An unused stray copy is harmless.
 * Proper moves: long random histories that move objects only with the
 * provided set/copy/swap/share/from/lock/slice/unslice/release functions
 * must never abort, must deliver the pointers where they were sent, call
 * each clear function once and leak nothing.
 * A scripted shared/weak/array life cycle checks that the managed memory is
 * released (clear function first) exactly when the last owner lets go and
 * the bookkeeping when the last weak reference does.
 * Nothing depends on what the shared control block looks like inside, on
 * how many times a function reads the guarded pointer, or on the order of
 * internal steps.
 */
#include "cstl/memory.h"
#include "cstl/array.h"

#include <stdio.h>
#include <stdlib.h>
#include <string.h>
#include <signal.h>
#include <unistd.h>
#include <sys/wait.h>
#include <sys/resource.h>

#define CHECK(X) do { if (!(X)) { \
    fprintf(stderr, "FAIL %s:%d: %s\n", __FILE__, __LINE__, #X); \
    exit(1); } } while (0)

/* ---- allocation accounting (ld --wrap) for the leak / double free audit ---- */

void * __real_malloc(size_t);
void __real_free(void *);

static long live_blocks;
static int counting;

void * __wrap_malloc(size_t n)
{
    void * const p = __real_malloc(n);
    if (p != NULL && counting) {
        live_blocks++;
    }
    return p;
}

void __wrap_free(void * p)
{
    if (p != NULL && counting) {
        live_blocks--;
    }
    __real_free(p);
}

static int cleared;
static void clr_count(void * const mem, void * const priv)
{
    (void)priv;
    CHECK(mem != NULL);
    cleared++;
}

/* ---- object states ---- */

enum state { EMPTY, OWNING, SHARED, WEAKONLY, NSTATES };
static const char * const state_name[] = {
    "empty", "owning", "shared", "weak-only"
};

/* how the stray copy comes about */
enum how { ASSIGN, MEMCPY, NHOW };

#define STRAY(DST, SRC, HOW) do { \
    if ((HOW) == ASSIGN) { (DST) = (SRC); } \
    else { memcpy(&(DST), &(SRC), sizeof(DST)); } } while (0)

/*
 * the originals the stray copies are made from. `other` objects are
 * properly initialised bystanders for the second argument position.
 */
static struct cstl_guarded_ptr g_orig, g_other, g_stray;
static cstl_unique_ptr_t u_orig, u_other, u_stray;
static cstl_shared_ptr_t s_orig, s_other, s_keep, s_stray;
static cstl_weak_ptr_t w_orig, w_other, w_stray;
static cstl_array_t a_orig, a_other, a_keep, a_stray;
static int ext_buf[8];
static char some_memory[16];

static void setup(const enum state st, const enum how how)
{
    cstl_guarded_ptr_init(&g_orig);
    cstl_guarded_ptr_init(&g_other);
    cstl_unique_ptr_init(&u_orig);
    cstl_unique_ptr_init(&u_other);
    cstl_shared_ptr_init(&s_orig);
    cstl_shared_ptr_init(&s_other);
    cstl_shared_ptr_init(&s_keep);
    cstl_weak_ptr_init(&w_orig);
    cstl_weak_ptr_init(&w_other);
    cstl_array_init(&a_orig);
    cstl_array_init(&a_other);
    cstl_array_init(&a_keep);

    if (st != EMPTY) {
        cstl_guarded_ptr_set(&g_orig, some_memory);
        cstl_unique_ptr_alloc(&u_orig, 32, clr_count, NULL);
        cstl_shared_ptr_alloc(&s_orig, 32, clr_count);
        cstl_weak_ptr_from(&w_orig, &s_orig);
        cstl_array_alloc(&a_orig, 8, sizeof(int));
        CHECK(cstl_unique_ptr_get(&u_orig) != NULL);
        CHECK(cstl_shared_ptr_get(&s_orig) != NULL);
        CHECK(cstl_array_data(&a_orig) != NULL);
    }
    if (st == SHARED) {
        cstl_shared_ptr_share(&s_orig, &s_keep);
        cstl_array_slice(&a_orig, 1, 5, &a_keep);
    }
    if (st == WEAKONLY) {
        /*
         * the weak pointer outlives the owners; the "shared" original
         * is one that lost its race and is empty again
         */
        cstl_shared_ptr_reset(&s_orig);
    }
    /* bystanders own something of their own */
    cstl_unique_ptr_alloc(&u_other, 8, NULL, NULL);
    cstl_shared_ptr_alloc(&s_other, 8, NULL);
    cstl_weak_ptr_from(&w_other, &s_other);
    cstl_array_set(&a_other, ext_buf, 8, sizeof(int));

    STRAY(g_stray, g_orig, how);
    STRAY(u_stray, u_orig, how);
    STRAY(s_stray, s_orig, how);
    STRAY(w_stray, w_orig, how);
    STRAY(a_stray, a_orig, how);
}

/* ---- every function that reads, transfers or releases the pointer ---- */

static void * sink;
static void * out_buf;
static cstl_xtor_func_t * out_clr;

#define CASES(X) \
    /* guarded */ \
    X(g_get_const,   1, sink = (void *)cstl_guarded_ptr_get_const(&g_stray)) \
    X(g_get,         1, sink = cstl_guarded_ptr_get(&g_stray)) \
    X(g_copy_src,    1, cstl_guarded_ptr_copy(&g_other, &g_stray)) \
    X(g_copy_dst,    0, cstl_guarded_ptr_copy(&g_stray, &g_other)) \
    X(g_swap_1,      1, cstl_guarded_ptr_swap(&g_stray, &g_other)) \
    X(g_swap_2,      1, cstl_guarded_ptr_swap(&g_other, &g_stray)) \
    X(g_set,         0, cstl_guarded_ptr_set(&g_stray, some_memory)) \
    X(g_init,        0, cstl_guarded_ptr_init(&g_stray)) \
    /* unique */ \
    X(u_get_const,   1, sink = (void *)cstl_unique_ptr_get_const(&u_stray)) \
    X(u_get,         1, sink = cstl_unique_ptr_get(&u_stray)) \
    X(u_alloc,       1, cstl_unique_ptr_alloc(&u_stray, 8, NULL, NULL)) \
    X(u_alloc_0,     1, cstl_unique_ptr_alloc(&u_stray, 0, NULL, NULL)) \
    X(u_release,     1, sink = cstl_unique_ptr_release(&u_stray, &out_clr, &out_buf)) \
    X(u_swap_1,      1, cstl_unique_ptr_swap(&u_stray, &u_other)) \
    X(u_swap_2,      1, cstl_unique_ptr_swap(&u_other, &u_stray)) \
    X(u_reset,       1, cstl_unique_ptr_reset(&u_stray)) \
    X(u_init,        0, cstl_unique_ptr_init(&u_stray)) \
    /* shared */ \
    X(s_alloc,       1, cstl_shared_ptr_alloc(&s_stray, 8, NULL)) \
    X(s_alloc_0,     1, cstl_shared_ptr_alloc(&s_stray, 0, NULL)) \
    X(s_unique,      1, sink = cstl_shared_ptr_unique(&s_stray) ? &sink : NULL) \
    X(s_get_const,   1, sink = (void *)cstl_shared_ptr_get_const(&s_stray)) \
    X(s_get,         1, sink = cstl_shared_ptr_get(&s_stray)) \
    X(s_share_from,  1, cstl_shared_ptr_share(&s_stray, &s_other)) \
    X(s_share_to,    1, cstl_shared_ptr_share(&s_other, &s_stray)) \
    X(s_swap_1,      1, cstl_shared_ptr_swap(&s_stray, &s_other)) \
    X(s_swap_2,      1, cstl_shared_ptr_swap(&s_other, &s_stray)) \
    X(s_reset,       1, cstl_shared_ptr_reset(&s_stray)) \
    X(s_weak_from,   1, cstl_weak_ptr_from(&w_other, &s_stray)) \
    X(s_lock_into,   1, cstl_weak_ptr_lock(&w_other, &s_stray)) \
    X(s_init,        0, cstl_shared_ptr_init(&s_stray)) \
    /* weak */ \
    X(w_from,        1, cstl_weak_ptr_from(&w_stray, &s_other)) \
    X(w_lock,        1, cstl_weak_ptr_lock(&w_stray, &s_other)) \
    X(w_swap_1,      1, cstl_weak_ptr_swap(&w_stray, &w_other)) \
    X(w_swap_2,      1, cstl_weak_ptr_swap(&w_other, &w_stray)) \
    X(w_reset,       1, cstl_weak_ptr_reset(&w_stray)) \
    X(w_init,        0, cstl_weak_ptr_init(&w_stray)) \
    /* array */ \
    X(a_set,         1, cstl_array_set(&a_stray, ext_buf, 8, sizeof(int))) \
    X(a_release,     1, cstl_array_release(&a_stray, &out_buf)) \
    X(a_alloc,       1, cstl_array_alloc(&a_stray, 4, sizeof(int))) \
    X(a_reset,       1, cstl_array_reset(&a_stray)) \
    X(a_data_const,  1, sink = (void *)cstl_array_data_const(&a_stray)) \
    X(a_data,        1, sink = cstl_array_data(&a_stray)) \
    X(a_at_const,    1, sink = (void *)cstl_array_at_const(&a_stray, 0)) \
    X(a_at,          1, sink = cstl_array_at(&a_stray, 0)) \
    X(a_slice_from,  1, cstl_array_slice(&a_stray, 0, 0, &a_other)) \
    X(a_slice_to,    1, cstl_array_slice(&a_other, 0, 4, &a_stray)) \
    X(a_slice_self,  1, cstl_array_slice(&a_stray, 0, 0, &a_stray)) \
    X(a_unslice_from, 1, cstl_array_unslice(&a_stray, &a_other)) \
    X(a_unslice_to,  1, cstl_array_unslice(&a_other, &a_stray)) \
    X(a_unslice_self, 1, cstl_array_unslice(&a_stray, &a_stray)) \
    X(a_init,        0, cstl_array_init(&a_stray))

#define X(NAME, ABORTS, CALL) static void case_##NAME(void) { CALL; }
CASES(X)
#undef X

static const struct
{
    const char * name;
    int aborts;
    void (* run)(void);
} cases[] = {
#define X(NAME, ABORTS, CALL) { #NAME, ABORTS, case_##NAME },
    CASES(X)
#undef X
};
#define NCASES (sizeof(cases) / sizeof(*cases))

/*
 * after a stray copy existed (and was possibly re-initialised by one of
 * the non-reading calls) the originals must work as if nothing happened
 */
static void originals_still_work(const enum state st)
{
    const int had = (st != EMPTY);

    CHECK((cstl_guarded_ptr_get(&g_orig) != NULL) == had);
    CHECK((cstl_unique_ptr_get(&u_orig) != NULL) == had);
    CHECK((cstl_shared_ptr_get(&s_orig) != NULL)
          == (st == OWNING || st == SHARED));
    CHECK((cstl_array_data(&a_orig) != NULL) == had);
    if (had) {
        *(int *)cstl_array_at(&a_orig, 7) = 77;
        CHECK(cstl_array_size(&a_orig) == 8);
        memset(cstl_unique_ptr_get(&u_orig), 0, 32);
    }
    if (st == OWNING || st == SHARED) {
        DECLARE_CSTL_SHARED_PTR(tmp);
        memset(cstl_shared_ptr_get(&s_orig), 0, 32);
        cstl_weak_ptr_lock(&w_orig, &tmp);
        CHECK(cstl_shared_ptr_get(&tmp) == cstl_shared_ptr_get(&s_orig));
        cstl_shared_ptr_reset(&tmp);
        CHECK(cstl_shared_ptr_unique(&s_orig) == 0);
    }
    if (st == WEAKONLY) {
        DECLARE_CSTL_SHARED_PTR(tmp);
        cstl_weak_ptr_lock(&w_orig, &tmp);
        CHECK(cstl_shared_ptr_get(&tmp) == NULL);
    }

    /* and they can be wound down without a double free */
    cstl_array_release(&a_other, &out_buf);
    CHECK(out_buf == (void *)ext_buf);
    cstl_array_reset(&a_keep);
    cstl_array_reset(&a_orig);
    cstl_weak_ptr_reset(&w_other);
    cstl_weak_ptr_reset(&w_orig);
    cstl_shared_ptr_reset(&s_keep);
    cstl_shared_ptr_reset(&s_other);
    cstl_shared_ptr_reset(&s_orig);
    cstl_unique_ptr_reset(&u_other);
    cstl_unique_ptr_reset(&u_orig);
}

static unsigned int stray_matrix(void)
{
    unsigned int c, n = 0;
    int st, how;
    struct rlimit nocore = { 0, 0 };

    for (c = 0; c < NCASES; c++) {
        for (st = 0; st < NSTATES; st++) {
            for (how = 0; how < NHOW; how++) {
                pid_t pid;
                int status;

                fflush(NULL);
                pid = fork();
                CHECK(pid >= 0);
                if (pid == 0) {
                    setrlimit(RLIMIT_CORE, &nocore);
                    counting = 1;
                    setup((enum state)st, (enum how)how);
                    cases[c].run();
                    /* only the calls that do not read get this far */
                    if (strcmp(cases[c].name + 1, "_init") == 0
                        || strcmp(cases[c].name, "g_set") == 0
                        || strcmp(cases[c].name, "g_copy_dst") == 0) {
                        /*
                         * the former stray copy is an object in its own
                         * right now (empty, or holding a borrowed pointer)
                         */
                        originals_still_work((enum state)st);
                        CHECK(live_blocks == 0);
                    }
                    _exit(0);
                }
                CHECK(waitpid(pid, &status, 0) == pid);
                if (cases[c].aborts) {
                    if (!WIFSIGNALED(status) || WTERMSIG(status) != SIGABRT) {
                        fprintf(stderr, "FAIL: %s on a stray copy (%s, %s): "
                                "status %#x, expected SIGABRT\n",
                                cases[c].name, state_name[st],
                                how == ASSIGN ? "assignment" : "memcpy",
                                status);
                        exit(1);
                    }
                } else if (!WIFEXITED(status) || WEXITSTATUS(status) != 0) {
                    fprintf(stderr, "FAIL: %s on a stray copy (%s, %s): "
                            "status %#x, expected a normal return\n",
                            cases[c].name, state_name[st],
                            how == ASSIGN ? "assignment" : "memcpy", status);
                    exit(1);
                }
                n++;
            }
        }
    }

    return n;
}

/* a stray copy that is never used does no harm */
static void unused_stray(void)
{
    int st, how;

    for (st = 0; st < NSTATES; st++) {
        for (how = 0; how < NHOW; how++) {
            counting = 1;
            cleared = 0;
            setup((enum state)st, (enum how)how);
            originals_still_work((enum state)st);
            counting = 0;
            CHECK(live_blocks == 0);
            CHECK(cleared == (st == EMPTY ? 0 : 2));
        }
    }
}

/* ---- objects moved only with the provided functions never abort ---- */

static unsigned long long lrng_state = 0x853c49e6748fea9bull;
static unsigned int lrng(void)
{
    lrng_state ^= lrng_state >> 12;
    lrng_state ^= lrng_state << 25;
    lrng_state ^= lrng_state >> 27;
    return (unsigned int)((lrng_state * 0x2545f4914f6cdd1dull) >> 33);
}

static void legit_history(const unsigned int steps)
{
    enum { NP = 6 };
    static struct cstl_guarded_ptr g[NP];
    static cstl_unique_ptr_t u[NP];
    static cstl_shared_ptr_t s[NP];
    static cstl_weak_ptr_t w[NP];
    static cstl_array_t a[NP];
    unsigned int i, step, allocs = 0;

    counting = 1;
    cleared = 0;
    for (i = 0; i < NP; i++) {
        cstl_guarded_ptr_init(&g[i]);
        cstl_unique_ptr_init(&u[i]);
        cstl_shared_ptr_init(&s[i]);
        cstl_weak_ptr_init(&w[i]);
        cstl_array_init(&a[i]);
    }

    for (step = 0; step < steps; step++) {
        const unsigned int x = lrng() % NP, y = lrng() % NP;

        switch (lrng() % 22) {
        case 0: cstl_guarded_ptr_set(&g[x], &g[y]); break;
        case 1: cstl_guarded_ptr_copy(&g[x], &g[y]); break;
        case 2: {
            void * const px = cstl_guarded_ptr_get(&g[x]);
            void * const py = cstl_guarded_ptr_get(&g[y]);
            cstl_guarded_ptr_swap(&g[x], &g[y]);
            CHECK(cstl_guarded_ptr_get(&g[x]) == py);
            CHECK(cstl_guarded_ptr_get_const(&g[y]) == px);
            break;
        }
        case 3:
            cstl_unique_ptr_alloc(&u[x], 1 + lrng() % 64, clr_count,
                                  (void *)&u[y]);
            allocs += cstl_unique_ptr_get(&u[x]) != NULL;
            break;
        case 4: {
            void * const px = cstl_unique_ptr_get(&u[x]);
            void * const py = cstl_unique_ptr_get(&u[y]);
            cstl_unique_ptr_swap(&u[x], &u[y]);
            CHECK(cstl_unique_ptr_get(&u[x]) == py);
            CHECK(cstl_unique_ptr_get(&u[y]) == px);
            break;
        }
        case 5: {
            cstl_xtor_func_t * f = NULL;
            void * priv = NULL;
            void * const p = cstl_unique_ptr_release(&u[x], &f, &priv);
            CHECK(cstl_unique_ptr_get(&u[x]) == NULL);
            if (p != NULL) {
                CHECK(f == clr_count);
                f(p, priv);
                free(p);
            }
            break;
        }
        case 6: cstl_unique_ptr_reset(&u[x]); break;
        case 7:
            cstl_shared_ptr_alloc(&s[x], 1 + lrng() % 64, clr_count);
            allocs += cstl_shared_ptr_get(&s[x]) != NULL;
            CHECK(cstl_shared_ptr_unique(&s[x]));
            break;
        case 8:
            cstl_shared_ptr_share(&s[x], &s[y]);
            CHECK(cstl_shared_ptr_get(&s[x]) == cstl_shared_ptr_get(&s[y]));
            break;
        case 9: {
            const void * const px = cstl_shared_ptr_get_const(&s[x]);
            const void * const py = cstl_shared_ptr_get_const(&s[y]);
            cstl_shared_ptr_swap(&s[x], &s[y]);
            CHECK(cstl_shared_ptr_get_const(&s[x]) == py);
            CHECK(cstl_shared_ptr_get_const(&s[y]) == px);
            break;
        }
        case 10: cstl_shared_ptr_reset(&s[x]); break;
        case 11: cstl_weak_ptr_from(&w[x], &s[y]); break;
        case 12: {
            cstl_weak_ptr_lock(&w[x], &s[y]);
            if (cstl_shared_ptr_get(&s[y]) != NULL) {
                memset(cstl_shared_ptr_get(&s[y]), 0x11, 1);
                CHECK(!cstl_shared_ptr_unique(&s[y]));
            }
            break;
        }
        case 13: cstl_weak_ptr_swap(&w[x], &w[y]); break;
        case 14: cstl_weak_ptr_reset(&w[x]); break;
        case 15:
            cstl_array_alloc(&a[x], lrng() % 20, sizeof(int));
            break;
        case 16:
            if (cstl_array_data(&a[x]) != NULL) {
                const size_t n = cstl_array_size(&a[x]);
                const size_t b = lrng() % (n + 1);
                const size_t e = b + lrng() % (n - b + 1);
                cstl_array_slice(&a[x], b, e, &a[y]);
                CHECK(cstl_array_size(&a[y]) == e - b);
            }
            break;
        case 17:
            if (cstl_array_data(&a[x]) != NULL) {
                cstl_array_unslice(&a[x], &a[y]);
            }
            break;
        case 18: cstl_array_reset(&a[x]); break;
        case 19:
            for (i = 0; i < cstl_array_size(&a[x]); i++) {
                *(int *)cstl_array_at(&a[x], i) = (int)i;
            }
            break;
        case 20: {
            void * b = &b;
            cstl_array_release(&a[x], &b);
            CHECK(b == NULL);   /* nothing here is caller-supplied */
            break;
        }
        default:
            CHECK((cstl_array_data_const(&a[x]) == NULL)
                  <= (cstl_array_size(&a[x]) == 0));
            break;
        }
    }

    for (i = 0; i < NP; i++) {
        cstl_array_reset(&a[i]);
        cstl_weak_ptr_reset(&w[i]);
        cstl_shared_ptr_reset(&s[i]);
        cstl_unique_ptr_reset(&u[i]);
    }
    counting = 0;
    CHECK(live_blocks == 0);
    CHECK((unsigned int)cleared == allocs);
}

/* the managed memory goes with the last owner, the bookkeeping with the last reference */
static void shared_lifecycle(void)
{
    DECLARE_CSTL_SHARED_PTR(s1);
    DECLARE_CSTL_SHARED_PTR(s2);
    DECLARE_CSTL_SHARED_PTR(s3);
    DECLARE_CSTL_WEAK_PTR(w1);
    DECLARE_CSTL_WEAK_PTR(w2);
    DECLARE_CSTL_ARRAY(a);
    DECLARE_CSTL_ARRAY(sl);
    long before;
    void * p;

    counting = 1;
    cleared = 0;
    before = live_blocks;

    cstl_shared_ptr_alloc(&s1, 100, clr_count);
    p = cstl_shared_ptr_get(&s1);
    CHECK(p != NULL && live_blocks == before + 2);
    memset(p, 0xee, 100);
    CHECK(cstl_shared_ptr_unique(&s1));

    cstl_shared_ptr_share(&s1, &s2);
    cstl_weak_ptr_from(&w1, &s2);
    cstl_weak_ptr_from(&w2, &s1);
    CHECK(!cstl_shared_ptr_unique(&s1));
    CHECK(cstl_shared_ptr_get_const(&s2) == p);

    cstl_shared_ptr_reset(&s1);
    CHECK(cleared == 0 && cstl_shared_ptr_get(&s1) == NULL);
    cstl_weak_ptr_lock(&w1, &s3);
    CHECK(cstl_shared_ptr_get(&s3) == p);
    cstl_shared_ptr_reset(&s2);
    CHECK(cleared == 0);
    CHECK(*(unsigned char *)cstl_shared_ptr_get(&s3) == 0xee);

    /* last owner: clear function runs, the memory is gone */
    cstl_shared_ptr_reset(&s3);
    CHECK(cleared == 1 && live_blocks == before + 1);
    cstl_weak_ptr_lock(&w2, &s1);
    CHECK(cstl_shared_ptr_get(&s1) == NULL);
    cstl_weak_ptr_reset(&w1);
    CHECK(live_blocks == before + 1);
    cstl_weak_ptr_swap(&w1, &w2);
    cstl_weak_ptr_reset(&w2);
    CHECK(live_blocks == before + 1);
    cstl_weak_ptr_reset(&w1);
    CHECK(live_blocks == before && cleared == 1);

    /* re-allocating over a loaded pointer lets go of the old memory */
    cstl_shared_ptr_alloc(&s1, 10, clr_count);
    cstl_shared_ptr_alloc(&s1, 20, clr_count);
    CHECK(cleared == 2 && live_blocks == before + 2);
    cstl_shared_ptr_alloc(&s1, 0, NULL);
    CHECK(cleared == 3 && live_blocks == before);
    CHECK(cstl_shared_ptr_get(&s1) == NULL && cstl_shared_ptr_unique(&s1));

    /* the array rides on the shared pointer */
    cstl_array_alloc(&a, 10, sizeof(int));
    cstl_array_slice(&a, 2, 4, &sl);
    cstl_array_reset(&a);
    *(int *)cstl_array_at(&sl, 1) = 5;
    cstl_array_unslice(&sl, &a);
    CHECK(cstl_array_size(&a) == 10 && *(int *)cstl_array_at(&a, 3) == 5);
    cstl_array_reset(&a);
    cstl_array_reset(&sl);
    CHECK(live_blocks == before);
    counting = 0;
}

int main(void)
{
    unsigned int n, i;

    shared_lifecycle();
    unused_stray();
    for (i = 0; i < 200; i++) {
        legit_history(3000);
    }
    n = stray_matrix();

    printf("ok: %u stray-copy cases behaved (abort / no abort) as required, "
           "200 histories of proper moves never aborted\n", n);
    return 0;
}
