/*
 * Model-based test of the narrow and wide string objects through their
 * public API. Two string objects per width are edited (set, insert_ch,
 * insert_str_n, insert_str, insert, append*, erase, substr, resize, swap,
 * clear) alongside plain reference arrays; after every edit size/at/str are
 * compared with the reference (str must hold exactly size characters and
 * then a NUL), and find_ch/find_str/compare are compared with the C library
 * applied to the reference characters. All edit sequences up to length 3
 * from a menu of small edits (alphabet {a, b, NUL}) are tried, followed by
 * long seeded random sequences. Counts reaching past the end (size-pos+1,
 * SIZE_MAX-1, SIZE_MAX) must be truncated; positions past the end and
 * growths that cannot be satisfied must abort (checked in forked children,
 * which must die of SIGABRT, nothing else).
 *
 * Patch c replaces the C library calls inside find_ch and find_str by
 * hand-written loops, so in addition to the searches done after every edit
 * this test builds EVERY string of length 1..6 over {a, b, NUL} (embedded
 * NULs included) and compares find_ch for every character and find_str /
 * find for every needle of length 0..3 over {a, b}, from every valid start
 * position, with strchr/strstr (wcschr/wcsstr) on the same characters.
 *
 * Build + run (from the worktree root, after `make build`):
 *   gcc -std=c99 -D_POSIX_C_SOURCE=200809L -O1 -Iinclude -o _keep/c/test _keep/c/test.c build/libcstl.a -lm && ./_keep/c/test
 */
#ifndef TEMPLATE_BODY

#include "cstl/string.h"

#include <signal.h>
#include <stdio.h>
#include <stdlib.h>
#include <string.h>
#include <wchar.h>
#include <unistd.h>
#include <sys/resource.h>
#include <sys/wait.h>

#define CHECK(c) do { if (!(c)) { \
    fprintf(stderr, "FAIL line %d: %s\n", __LINE__, #c); _exit(1); } } while (0)

#define MAXL 40
#ifndef ERASE_WEIGHT
#define ERASE_WEIGHT 1
#endif

static long nstates, naborts;

static int sign(const int x)
{
    return (x > 0) - (x < 0);
}

/* run f(arg) in a child; 1 if it died of SIGABRT, 0 if it returned */
static int aborts(void (* const f)(const size_t *), const size_t * const arg)
{
    int st;
    const pid_t pid = fork();
    CHECK(pid >= 0);
    if (pid == 0) {
        struct rlimit rl = { 0, 0 };
        setrlimit(RLIMIT_CORE, &rl);
        f(arg);
        _exit(0);
    }
    CHECK(waitpid(pid, &st, 0) == pid);
    naborts++;
    if (WIFSIGNALED(st)) {
        CHECK(WTERMSIG(st) == SIGABRT);
        return 1;
    }
    CHECK(WIFEXITED(st) && WEXITSTATUS(st) == 0);
    return 0;
}

#define TEMPLATE_BODY

#define S(n)    cstl_string_##n
#define T(n)    narrow_##n
#define CH      char
#define LIT(x)  x
#define CSF(n)  str##n
#define SS      struct cstl_string
#include "test.c"
#undef S
#undef T
#undef CH
#undef LIT
#undef CSF
#undef SS

#define S(n)    cstl_wstring_##n
#define T(n)    wide_##n
#define CH      wchar_t
#define LIT(x)  L##x
#define CSF(n)  wcs##n
#define SS      struct cstl_wstring
#include "test.c"

int main(void)
{
    narrow_all();
    wide_all();
    printf("%ld states checked, %ld abort checks; ok\n", nstates, naborts);
    return 0;
}

#else /* TEMPLATE_BODY */

struct T(model)
{
    CH buf[2 * MAXL + 8];
    size_t len;
};

static SS T(s)[2];
static struct T(model) T(m)[2];

static void T(verify)(const int k)
{
    static const CH alphabet[] = { LIT('a'), LIT('b'), LIT('c'), 0 };
    static const CH * const needles[] = {
        LIT(""), LIT("a"), LIT("b"), LIT("ab"), LIT("ba"), LIT("aa"),
        LIT("bab"), LIT("abba"),
    };
    const SS * const s = &T(s)[k];
    const struct T(model) * const m = &T(m)[k];
    const CH * const str = S(str)(s);
    size_t i, pos;
    unsigned a;

    nstates++;
    CHECK(S(size)(s) == m->len);
    CHECK(m->buf[m->len] == 0);
    CHECK(str != NULL);
    for (i = 0; i < m->len; i++) {
        CHECK(*S(at)((SS *)s, i) == m->buf[i]);
        CHECK(*S(at_const)(s, i) == m->buf[i]);
        CHECK(str[i] == m->buf[i]);
        CHECK(S(at_const)(s, i) == str + i);
    }
    CHECK(str[m->len] == 0);
    if (m->len > 0) {
        CHECK(S(data)((SS *)s) == str);
    }
    CHECK(S(capacity)(s) >= m->len);

    /* compare: as the C library sees the same characters */
    for (a = 0; a < sizeof(needles) / sizeof(needles[0]); a++) {
        CHECK(sign(S(compare_str)(s, needles[a]))
              == sign(CSF(cmp)(m->buf, needles[a])));
    }
    CHECK(S(compare)(s, s) == 0);
    CHECK(sign(S(compare)(&T(s)[0], &T(s)[1]))
          == sign(CSF(cmp)(T(m)[0].buf, T(m)[1].buf)));

    for (pos = 0; pos < m->len; pos++) {
        for (a = 0; a < sizeof(alphabet) / sizeof(alphabet[0]); a++) {
            const CH * const f = CSF(chr)(m->buf + pos, alphabet[a]);
            ssize_t want = -1;
            if (f != NULL && f != m->buf + m->len) {
                want = f - m->buf;
            }
            CHECK(S(find_ch)(s, alphabet[a], pos) == want);
        }
        for (a = 0; a < sizeof(needles) / sizeof(needles[0]); a++) {
            const CH * const f = CSF(str)(m->buf + pos, needles[a]);
            CHECK(S(find_str)(s, needles[a], pos)
                  == (f != NULL ? f - m->buf : -1));
        }
        CHECK(S(find)(s, &T(s)[!k], pos)
              == (CSF(str)(m->buf + pos, T(m)[!k].buf) != NULL
                  ? CSF(str)(m->buf + pos, T(m)[!k].buf) - m->buf : -1));
    }
}

/* ---- reference edits ---- */

static void T(m_insert)(struct T(model) * const m, const size_t pos,
                        const CH * const src, const size_t n)
{
    CHECK(pos <= m->len && m->len + n <= 2 * MAXL);
    memmove(m->buf + pos + n, m->buf + pos, (m->len - pos + 1) * sizeof(CH));
    memcpy(m->buf + pos, src, n * sizeof(CH));
    m->len += n;
}

static void T(m_erase)(struct T(model) * const m, const size_t pos, size_t n)
{
    CHECK(pos < m->len);
    if (n > m->len - pos) {
        n = m->len - pos;
    }
    memmove(m->buf + pos, m->buf + pos + n,
            (m->len - pos - n + 1) * sizeof(CH));
    m->len -= n;
}

/* ---- things that must abort (run in a child) ---- */

static int T(which);
static void T(f_at)(const size_t * const a)
{
    (void)S(at)(&T(s)[T(which)], a[0]);
}
static void T(f_at_const)(const size_t * const a)
{
    (void)S(at_const)(&T(s)[T(which)], a[0]);
}
static void T(f_insert_ch)(const size_t * const a)
{
    S(insert_ch)(&T(s)[T(which)], a[0], a[1], LIT('a'));
}
static void T(f_insert_str_n)(const size_t * const a)
{
    S(insert_str_n)(&T(s)[T(which)], a[0], LIT("ab"), a[1]);
}
static void T(f_insert)(const size_t * const a)
{
    S(insert)(&T(s)[T(which)], a[0], &T(s)[!T(which)]);
}
static void T(f_erase)(const size_t * const a)
{
    S(erase)(&T(s)[T(which)], a[0], a[1]);
}
static void T(f_substr)(const size_t * const a)
{
    S(substr)(&T(s)[T(which)], a[0], a[1], &T(s)[!T(which)]);
}
static void T(f_find_ch)(const size_t * const a)
{
    (void)S(find_ch)(&T(s)[T(which)], LIT('a'), a[0]);
}
static void T(f_find_str)(const size_t * const a)
{
    (void)S(find_str)(&T(s)[T(which)], LIT("a"), a[0]);
}
static void T(f_resize)(const size_t * const a)
{
    S(resize)(&T(s)[T(which)], a[0]);
}

static void T(check_aborts)(const int k)
{
    const size_t len = T(m)[k].len;
    const size_t q = SIZE_MAX / sizeof(CH);
    size_t a[2];

    T(which) = k;

#define AB(f, x, y) do { a[0] = (x); a[1] = (y); \
                         CHECK(aborts(T(f), a)); } while (0)
#define OK(f, x, y) do { a[0] = (x); a[1] = (y); \
                         CHECK(!aborts(T(f), a)); } while (0)
    /* positions */
    AB(f_at, len, 0);
    AB(f_at_const, len + 1, 0);
    AB(f_at, SIZE_MAX, 0);
    AB(f_insert_ch, len + 1, 1);
    AB(f_insert_ch, len + 1, 0);
    AB(f_insert_ch, SIZE_MAX, 1);
    AB(f_insert_str_n, len + 1, 2);
    AB(f_insert_str_n, len + 2, 0);
    AB(f_insert, len + 1, 0);
    AB(f_erase, len, 1);
    AB(f_erase, len, 0);
    AB(f_erase, len + 1, SIZE_MAX);
    AB(f_erase, SIZE_MAX, 1);
    AB(f_substr, len, 1);
    AB(f_substr, len + 1, 0);
    AB(f_substr, SIZE_MAX, SIZE_MAX);
    AB(f_find_ch, len, 0);
    AB(f_find_ch, SIZE_MAX, 0);
    AB(f_find_str, len, 0);
    AB(f_find_str, len + 7, 0);
    /* growth that cannot be had */
    AB(f_resize, SIZE_MAX, 0);
    AB(f_resize, SIZE_MAX - 1, 0);
    AB(f_resize, SIZE_MAX - 2, 0);
    AB(f_resize, q, 0);
    AB(f_resize, q - 1, 0);
    AB(f_resize, q - 2, 0);
    AB(f_resize, q / 2 + 1, 0);
    AB(f_insert_ch, 0, SIZE_MAX);
    AB(f_insert_ch, len, SIZE_MAX - 1);
    AB(f_insert_ch, 0, SIZE_MAX - len);
    AB(f_insert_ch, 0, SIZE_MAX - len - 1);
    AB(f_insert_ch, len / 2, q - len);
    AB(f_insert_ch, 0, q - len - 1);
    /* and a few that are fine */
    if (len > 0) {
        OK(f_at, len - 1, 0);
        OK(f_erase, len - 1, SIZE_MAX);
        OK(f_erase, 0, SIZE_MAX - 1);
        OK(f_substr, 0, SIZE_MAX);
        OK(f_find_ch, len - 1, 0);
    }
    OK(f_insert_ch, len, 2);
    OK(f_insert_str_n, len, 0);
    OK(f_resize, len + 5, 0);
#undef AB
#undef OK
}

/* ---- the menu of edits; returns 0 if the edit does not apply ---- */

#define NEDITS (26 + 8 * ERASE_WEIGHT)

static int T(edit)(const int e, const unsigned r)
{
    SS * const s0 = &T(s)[0], * const s1 = &T(s)[1];
    struct T(model) * const m0 = &T(m)[0], * const m1 = &T(m)[1];
    const size_t len = m0->len;
    const size_t pos = len > 0 ? r % (len + 1) : 0;     /* 0..len */
    const size_t in = len > 0 ? r % len : 0;            /* 0..len-1 */
    const CH ab[] = { LIT('a'), LIT('b'), 0 };
    const CH ch = ab[(r >> 8) % 2];
    CH fill[3];

    if (len > MAXL || m1->len > MAXL) {
        /* keep things short: only shrinking edits from here */
        if (e < 26 && e != 0 && e != 1 && e != 20 && e != 21 && e != 25) {
            return 0;
        }
    }

    fill[0] = fill[1] = ch;
    fill[2] = 0;

    switch (e) {
    case 0:
        S(set_str)(s0, LIT(""));
        m0->len = 0;
        m0->buf[0] = 0;
        break;
    case 1:
        S(set_str)(s0, LIT("ab"));
        m0->len = 0;
        m0->buf[0] = 0;
        T(m_insert)(m0, 0, LIT("ab"), 2);
        break;
    case 2:
        S(set_str)(s1, LIT("ba"));
        m1->len = 0;
        m1->buf[0] = 0;
        T(m_insert)(m1, 0, LIT("ba"), 2);
        break;
    case 3: S(insert_ch)(s0, pos, 0, ch); break;
    case 4: S(insert_ch)(s0, pos, 1, ch); T(m_insert)(m0, pos, fill, 1); break;
    case 5: S(insert_ch)(s0, pos, 2, ch); T(m_insert)(m0, pos, fill, 2); break;
    case 6: S(insert_ch)(s0, 0, 1, ch); T(m_insert)(m0, 0, fill, 1); break;
    case 7: S(insert_ch)(s0, len, 2, ch); T(m_insert)(m0, len, fill, 2); break;
    case 8:
        /* an embedded NUL is a character like any other */
        fill[0] = 0;
        S(insert_ch)(s0, pos, 1, 0);
        T(m_insert)(m0, pos, fill, 1);
        break;
    case 9:
        S(insert_str_n)(s0, pos, LIT("ba"), 0);
        break;
    case 10:
        S(insert_str_n)(s0, pos, LIT("ba"), 1);
        T(m_insert)(m0, pos, LIT("ba"), 1);
        break;
    case 11:
        S(insert_str_n)(s0, pos, LIT("ba"), 2);
        T(m_insert)(m0, pos, LIT("ba"), 2);
        break;
    case 12:
        S(insert_str)(s0, pos, LIT("b"));
        T(m_insert)(m0, pos, LIT("b"), 1);
        break;
    case 13:
        S(insert_str)(s0, pos, LIT(""));
        break;
    case 14:
        S(insert)(s0, pos, s1);
        T(m_insert)(m0, pos, m1->buf, m1->len);
        break;
    case 15:
        S(append)(s0, s1);
        T(m_insert)(m0, len, m1->buf, m1->len);
        break;
    case 16:
        S(append_ch)(s0, 1 + r % 2, ch);
        T(m_insert)(m0, len, fill, 1 + r % 2);
        break;
    case 17:
        S(append_str)(s0, LIT("ab"));
        T(m_insert)(m0, len, LIT("ab"), 2);
        break;
    case 18:
        S(append_str_n)(s0, LIT("ab"), 1);
        T(m_insert)(m0, len, LIT("ab"), 1);
        break;
    case 19:
        S(append)(s1, s0);
        T(m_insert)(m1, m1->len, m0->buf, m0->len);
        break;
    case 20:
        if (len == 0) {
            return 0;
        }
        {
            /* substring of s0 into s1, count maybe past the end */
            static const size_t cnts[] = { 0, 1, 2, SIZE_MAX, SIZE_MAX - 1 };
            size_t n = cnts[(r >> 4) % 5];
            if ((r >> 12) % 3 == 0) {
                n = len - in + (r >> 14) % 2;       /* to the end, or 1 past */
            }
            S(substr)(s0, in, n, s1);
            if (n > len - in) {
                n = len - in;
            }
            m1->len = 0;
            m1->buf[0] = 0;
            T(m_insert)(m1, 0, m0->buf + in, n);
        }
        break;
    case 21:
        {
            static const int deltas[] = { -3, -1, 0, 1, 3 };
            const int d = len > MAXL ? -3 : deltas[r % 5];
            size_t n = len;
            if (d < 0) {
                n = len >= (size_t)-d ? len - (size_t)-d : 0;
            } else {
                n = len + (size_t)d;
            }
            S(resize)(s0, n);
            /* new characters are NULs; dropped ones are gone */
            while (m0->len < n) {
                m0->buf[m0->len++] = 0;
            }
            m0->len = n;
            m0->buf[n] = 0;
        }
        break;
    case 22:
        S(resize)(s0, len);
        break;
    case 23:
        S(swap)(s0, s1);
        {
            const struct T(model) t = *m0;
            *m0 = *m1;
            *m1 = t;
        }
        break;
    case 24:
        S(swap)(s1, s0);
        {
            const struct T(model) t = *m0;
            *m0 = *m1;
            *m1 = t;
        }
        break;
    case 25:
        S(clear)(s0);
        m0->len = 0;
        m0->buf[0] = 0;
        CHECK(S(capacity)(s0) == 0);
        break;
    default:
        /* erase, in 8 flavours (each listed ERASE_WEIGHT times) */
        if (len == 0) {
            return 0;
        }
        switch ((e - 26) % 8) {
        case 0: S(erase)(s0, in, 0); T(m_erase)(m0, in, 0); break;
        case 1: S(erase)(s0, in, 1); T(m_erase)(m0, in, 1); break;
        case 2: S(erase)(s0, in, 2); T(m_erase)(m0, in, 2); break;
        case 3: S(erase)(s0, 0, len); T(m_erase)(m0, 0, len); break;
        case 4:
            S(erase)(s0, in, len - in);                     /* exactly */
            T(m_erase)(m0, in, len - in);
            break;
        case 5:
            S(erase)(s0, in, len - in + 1);                 /* one past */
            T(m_erase)(m0, in, len - in + 1);
            break;
        case 6:
            S(erase)(s0, in, SIZE_MAX);                     /* "to the end" */
            T(m_erase)(m0, in, SIZE_MAX);
            break;
        default:
            S(erase)(s0, len - 1, SIZE_MAX - (r % 3));      /* last char */
            T(m_erase)(m0, len - 1, SIZE_MAX);
            break;
        }
        break;
    }
    return 1;
}

static void T(reset)(void)
{
    int k;
    for (k = 0; k < 2; k++) {
        S(clear)(&T(s)[k]);
        S(init)(&T(s)[k]);
        T(m)[k].len = 0;
        T(m)[k].buf[0] = 0;
    }
}

/* replay a sequence of edits from scratch, verifying after each */
static int T(replay)(const int * const seq, const int n, const unsigned salt)
{
    int i;
    T(reset)();
    for (i = 0; i < n; i++) {
        if (!T(edit)(seq[i], salt * 2654435761u + (unsigned)i * 40503u
                     + (unsigned)seq[i] * 97u)) {
            return 0;
        }
        T(verify)(0);
        T(verify)(1);
    }
    return 1;
}

static void T(find_exhaustive)(void)
{
    static const CH abc[] = { LIT('a'), LIT('b'), 0 };
    CH text[8], needle[4];
    size_t len, nlen, pos, i;
    unsigned long code, ncode, total, ntotal;

    for (len = 1; len <= 6; len++) {
        for (total = 1, i = 0; i < len; i++) {
            total *= 3;
        }
        for (code = 0; code < total; code++) {
            unsigned long c = code;
            for (i = 0; i < len; i++, c /= 3) {
                text[i] = abc[c % 3];
            }
            text[len] = 0;

            T(reset)();
            S(insert_str_n)(&T(s)[0], 0, text, len);
            T(m_insert)(&T(m)[0], 0, text, len);
            CHECK(S(size)(&T(s)[0]) == len);
            CHECK(memcmp(S(str)(&T(s)[0]), text, (len + 1) * sizeof(CH)) == 0);

            for (pos = 0; pos < len; pos++) {
                for (i = 0; i < 4; i++) {
                    const CH ch = i < 3 ? abc[i] : LIT('c');
                    const CH * const f = CSF(chr)(text + pos, ch);
                    CHECK(S(find_ch)(&T(s)[0], ch, pos)
                          == (f != NULL && f != text + len ? f - text : -1));
                }
                for (nlen = 0; nlen <= 3; nlen++) {
                    ntotal = 1u << nlen;
                    for (ncode = 0; ncode < ntotal; ncode++) {
                        const CH * f;
                        for (i = 0; i < nlen; i++) {
                            needle[i] = abc[(ncode >> i) & 1];
                        }
                        needle[nlen] = 0;
                        f = CSF(str)(text + pos, needle);
                        CHECK(S(find_str)(&T(s)[0], needle, pos)
                              == (f != NULL ? f - text : -1));
                        /* the same through a string object as the needle */
                        S(set_str)(&T(s)[1], needle);
                        CHECK(S(find)(&T(s)[0], &T(s)[1], pos)
                              == (f != NULL ? f - text : -1));
                        nstates++;
                    }
                }
            }
        }
    }
    T(reset)();
}

static void T(all)(void)
{
    int seq[3], i;
    unsigned salt;

    S(init)(&T(s)[0]);
    S(init)(&T(s)[1]);
    T(find_exhaustive)();

    S(init)(&T(s)[0]);
    S(init)(&T(s)[1]);
    T(reset)();
    T(verify)(0);
    T(verify)(1);
    T(check_aborts)(0);

    /* every sequence of up to 3 edits from the menu, two salts each */
    for (salt = 1; salt <= 2; salt++) {
        for (seq[0] = 0; seq[0] < NEDITS; seq[0]++) {
            if (!T(replay)(seq, 1, salt)) {
                continue;
            }
            if (salt == 1 && seq[0] < 34) {
                T(check_aborts)(0);
                T(check_aborts)(1);
            }
            for (seq[1] = 0; seq[1] < NEDITS; seq[1]++) {
                if (!T(replay)(seq, 2, salt)) {
                    continue;
                }
                for (seq[2] = 0; seq[2] < NEDITS; seq[2]++) {
                    (void)T(replay)(seq, 3, salt);
                }
            }
        }
    }

    /* long random walks */
    for (salt = 0; salt < 20; salt++) {
        srand(1000 + salt);
        T(reset)();
        for (i = 0; i < 3000; i++) {
            if (T(edit)(rand() % NEDITS, (unsigned)rand())) {
                T(verify)(0);
                T(verify)(1);
            }
            if (i % 500 == 250) {
                T(check_aborts)(rand() & 1);
            }
        }
    }
    T(reset)();
}

#endif /* TEMPLATE_BODY */
