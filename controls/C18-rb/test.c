/*
 * C18: public headers are usable by client programs that link the library.
 *
 * Variant b reorders the private members of the public structures:
 * see the worlds (objects initialised statically and at run time in either TU, handled by the inline functions of either TU) and sizeof_all().
 *
 * This one file is meant to be compiled TWICE, as two translation units of
 * the same program (-DTU=1 holds main(), -DTU=2 is its peer) and the two
 * objects are then linked once against build/libcstl.a and once against
 * build/libcstl.so (see build_cmd in meta.json). Without -DTU it is a
 * complete single-TU program as well.
 *
 *   - TU 1 includes every public header in alphabetical order; TU 2
 *     includes every one of them twice, in the opposite order.
 *   - both TUs take the address of every function the headers declare
 *     (203 of them, inline or not, including the @private ones) and of the
 *     two data objects; the addresses of the library-provided functions
 *     must be identical in both TUs.
 *   - both TUs own objects initialised with the static initialiser macros
 *     and objects initialised with the *_init() functions; every such set
 *     of objects is filled, checked and drained by every combination of the
 *     two TUs (that is, by the header-inline functions as compiled into
 *     either TU plus the library), with several element counts.
 *   - finally, when run from the worktree root with a compiler available,
 *     the program generates small clients and compiles them with the
 *     project's own warning flags (plus -Werror): every header alone, every
 *     ordered pair, all headers forwards/backwards/doubled, each of those
 *     in one and in two TUs, linked against both libcstl.a (normally and
 *     with --whole-archive) and libcstl.so with unresolved symbols
 *     forbidden, and an address-of-everything client.
 */

#if defined(TU) && TU == 2
#include "cstl/vector.h"
#include "cstl/string.h"
#include "cstl/slist.h"
#include "cstl/rbtree.h"
#include "cstl/memory.h"
#include "cstl/map.h"
#include "cstl/heap.h"
#include "cstl/hash.h"
#include "cstl/dlist.h"
#include "cstl/common.h"
#include "cstl/bintree.h"
#include "cstl/array.h"
#include "cstl/vector.h"
#include "cstl/string.h"
#include "cstl/slist.h"
#include "cstl/rbtree.h"
#include "cstl/memory.h"
#include "cstl/map.h"
#include "cstl/heap.h"
#include "cstl/hash.h"
#include "cstl/dlist.h"
#include "cstl/common.h"
#include "cstl/bintree.h"
#include "cstl/array.h"
#else
#include "cstl/array.h"
#include "cstl/bintree.h"
#include "cstl/common.h"
#include "cstl/dlist.h"
#include "cstl/hash.h"
#include "cstl/heap.h"
#include "cstl/map.h"
#include "cstl/memory.h"
#include "cstl/rbtree.h"
#include "cstl/slist.h"
#include "cstl/string.h"
#include "cstl/vector.h"
#endif

#include <stdio.h>
#include <stdlib.h>
#include <string.h>
#include <wchar.h>

#if defined(TU) && TU == 2
#define ME(X)           c18_tu2_##X
#define PEER(X)         c18_tu1_##X
#define ME_NAME         "tu2"
#elif defined(TU)
#define ME(X)           c18_tu1_##X
#define PEER(X)         c18_tu2_##X
#define ME_NAME         "tu1"
#else
#define ME(X)           c18_tu1_##X
#define PEER(X)         c18_tu1_##X
#define ME_NAME         "tu1"
#endif

/* every function declared by the public headers: F(is_extern, name) */
#define C18_FUNCTIONS \
    F(0, cstl_swap, "common.h") \
    F(1, cstl_fls, "common.h") \
    F(0, cstl_guarded_ptr_set, "memory.h") \
    F(0, cstl_guarded_ptr_init, "memory.h") \
    F(0, cstl_guarded_ptr_get_const, "memory.h") \
    F(0, cstl_guarded_ptr_get, "memory.h") \
    F(0, cstl_guarded_ptr_copy, "memory.h") \
    F(0, cstl_guarded_ptr_swap, "memory.h") \
    F(0, cstl_unique_ptr_init, "memory.h") \
    F(1, cstl_unique_ptr_alloc, "memory.h") \
    F(0, cstl_unique_ptr_get_const, "memory.h") \
    F(0, cstl_unique_ptr_get, "memory.h") \
    F(0, cstl_unique_ptr_release, "memory.h") \
    F(0, cstl_unique_ptr_swap, "memory.h") \
    F(1, cstl_unique_ptr_reset, "memory.h") \
    F(0, cstl_shared_ptr_init, "memory.h") \
    F(1, cstl_shared_ptr_alloc, "memory.h") \
    F(1, cstl_shared_ptr_unique, "memory.h") \
    F(1, cstl_shared_ptr_get_const, "memory.h") \
    F(0, cstl_shared_ptr_get, "memory.h") \
    F(1, cstl_shared_ptr_share, "memory.h") \
    F(0, cstl_shared_ptr_swap, "memory.h") \
    F(1, cstl_shared_ptr_reset, "memory.h") \
    F(0, cstl_weak_ptr_init, "memory.h") \
    F(1, cstl_weak_ptr_from, "memory.h") \
    F(1, cstl_weak_ptr_lock, "memory.h") \
    F(0, cstl_weak_ptr_swap, "memory.h") \
    F(1, cstl_weak_ptr_reset, "memory.h") \
    F(0, cstl_array_init, "array.h") \
    F(0, cstl_array_size, "array.h") \
    F(1, cstl_array_set, "array.h") \
    F(1, cstl_array_release, "array.h") \
    F(1, cstl_array_alloc, "array.h") \
    F(0, cstl_array_reset, "array.h") \
    F(1, cstl_array_data_const, "array.h") \
    F(0, cstl_array_data, "array.h") \
    F(1, cstl_array_at_const, "array.h") \
    F(0, cstl_array_at, "array.h") \
    F(1, cstl_array_slice, "array.h") \
    F(1, cstl_array_unslice, "array.h") \
    F(1, cstl_raw_array_reverse, "array.h") \
    F(1, cstl_raw_array_search, "array.h") \
    F(1, cstl_raw_array_find, "array.h") \
    F(1, cstl_raw_array_sort, "array.h") \
    F(0, cstl_bintree_init, "bintree.h") \
    F(0, cstl_bintree_size, "bintree.h") \
    F(1, cstl_bintree_insert, "bintree.h") \
    F(1, cstl_bintree_find, "bintree.h") \
    F(1, cstl_bintree_erase, "bintree.h") \
    F(1, cstl_bintree_clear, "bintree.h") \
    F(1, cstl_bintree_swap, "bintree.h") \
    F(1, cstl_bintree_foreach, "bintree.h") \
    F(1, cstl_bintree_height, "bintree.h") \
    F(1, __cstl_bintree_cmp, "bintree.h") \
    F(1, __cstl_bintree_erase, "bintree.h") \
    F(0, __cstl_bintree_left, "bintree.h") \
    F(0, __cstl_bintree_right, "bintree.h") \
    F(1, __cstl_bintree_rotate, "bintree.h") \
    F(0, cstl_dlist_init, "dlist.h") \
    F(0, cstl_dlist_size, "dlist.h") \
    F(1, cstl_dlist_insert, "dlist.h") \
    F(1, cstl_dlist_erase, "dlist.h") \
    F(1, cstl_dlist_front, "dlist.h") \
    F(1, cstl_dlist_back, "dlist.h") \
    F(1, cstl_dlist_push_front, "dlist.h") \
    F(1, cstl_dlist_push_back, "dlist.h") \
    F(1, cstl_dlist_pop_front, "dlist.h") \
    F(1, cstl_dlist_pop_back, "dlist.h") \
    F(1, cstl_dlist_reverse, "dlist.h") \
    F(1, cstl_dlist_sort, "dlist.h") \
    F(1, cstl_dlist_concat, "dlist.h") \
    F(1, cstl_dlist_foreach, "dlist.h") \
    F(1, cstl_dlist_find, "dlist.h") \
    F(1, cstl_dlist_clear, "dlist.h") \
    F(1, cstl_dlist_swap, "dlist.h") \
    F(0, cstl_hash_init, "hash.h") \
    F(0, cstl_hash_size, "hash.h") \
    F(0, cstl_hash_load, "hash.h") \
    F(1, cstl_hash_shrink_to_fit, "hash.h") \
    F(1, cstl_hash_resize, "hash.h") \
    F(1, cstl_hash_rehash, "hash.h") \
    F(1, cstl_hash_insert, "hash.h") \
    F(1, cstl_hash_find, "hash.h") \
    F(1, cstl_hash_erase, "hash.h") \
    F(1, cstl_hash_foreach, "hash.h") \
    F(1, cstl_hash_foreach_const, "hash.h") \
    F(1, cstl_hash_clear, "hash.h") \
    F(0, cstl_hash_swap, "hash.h") \
    F(1, cstl_hash_div, "hash.h") \
    F(1, cstl_hash_mul, "hash.h") \
    F(0, cstl_heap_init, "heap.h") \
    F(0, cstl_heap_size, "heap.h") \
    F(1, cstl_heap_push, "heap.h") \
    F(1, cstl_heap_get, "heap.h") \
    F(1, cstl_heap_pop, "heap.h") \
    F(0, cstl_heap_clear, "heap.h") \
    F(0, cstl_heap_swap, "heap.h") \
    F(0, cstl_rbtree_init, "rbtree.h") \
    F(0, cstl_rbtree_size, "rbtree.h") \
    F(1, cstl_rbtree_insert, "rbtree.h") \
    F(0, cstl_rbtree_find, "rbtree.h") \
    F(1, cstl_rbtree_erase, "rbtree.h") \
    F(1, __cstl_rbtree_erase, "rbtree.h") \
    F(0, cstl_rbtree_clear, "rbtree.h") \
    F(0, cstl_rbtree_swap, "rbtree.h") \
    F(0, cstl_rbtree_foreach, "rbtree.h") \
    F(0, cstl_rbtree_height, "rbtree.h") \
    F(1, cstl_map_iterator_end, "map.h") \
    F(0, cstl_map_iterator_eq, "map.h") \
    F(1, cstl_map_init, "map.h") \
    F(0, cstl_map_size, "map.h") \
    F(1, cstl_map_insert, "map.h") \
    F(1, cstl_map_find, "map.h") \
    F(1, cstl_map_erase, "map.h") \
    F(1, cstl_map_erase_iterator, "map.h") \
    F(1, cstl_map_clear, "map.h") \
    F(0, cstl_slist_init, "slist.h") \
    F(0, cstl_slist_size, "slist.h") \
    F(1, cstl_slist_insert_after, "slist.h") \
    F(1, cstl_slist_erase_after, "slist.h") \
    F(1, cstl_slist_push_front, "slist.h") \
    F(1, cstl_slist_push_back, "slist.h") \
    F(1, cstl_slist_pop_front, "slist.h") \
    F(1, cstl_slist_front, "slist.h") \
    F(1, cstl_slist_back, "slist.h") \
    F(1, cstl_slist_reverse, "slist.h") \
    F(1, cstl_slist_sort, "slist.h") \
    F(1, cstl_slist_concat, "slist.h") \
    F(1, cstl_slist_foreach, "slist.h") \
    F(1, cstl_slist_clear, "slist.h") \
    F(1, cstl_slist_swap, "slist.h") \
    F(0, cstl_vector_init_complex, "vector.h") \
    F(0, cstl_vector_init, "vector.h") \
    F(0, cstl_vector_size, "vector.h") \
    F(0, cstl_vector_capacity, "vector.h") \
    F(0, cstl_vector_data, "vector.h") \
    F(1, cstl_vector_at, "vector.h") \
    F(1, cstl_vector_at_const, "vector.h") \
    F(1, cstl_vector_reserve, "vector.h") \
    F(1, cstl_vector_shrink_to_fit, "vector.h") \
    F(1, cstl_vector_resize, "vector.h") \
    F(1, __cstl_vector_sort, "vector.h") \
    F(0, cstl_vector_sort, "vector.h") \
    F(1, cstl_vector_search, "vector.h") \
    F(1, cstl_vector_find, "vector.h") \
    F(1, __cstl_vector_reverse, "vector.h") \
    F(0, cstl_vector_reverse, "vector.h") \
    F(1, cstl_vector_swap, "vector.h") \
    F(1, cstl_vector_clear, "vector.h") \
    F(0, cstl_string_init, "string.h") \
    F(0, cstl_string_size, "string.h") \
    F(0, cstl_string_capacity, "string.h") \
    F(0, cstl_string_reserve, "string.h") \
    F(1, cstl_string_resize, "string.h") \
    F(1, cstl_string_at, "string.h") \
    F(1, cstl_string_at_const, "string.h") \
    F(0, cstl_string_data, "string.h") \
    F(1, cstl_string_str, "string.h") \
    F(0, cstl_string_compare_str, "string.h") \
    F(0, cstl_string_compare, "string.h") \
    F(0, cstl_string_clear, "string.h") \
    F(1, cstl_string_insert_ch, "string.h") \
    F(1, cstl_string_insert_str_n, "string.h") \
    F(0, cstl_string_insert_str, "string.h") \
    F(0, cstl_string_insert, "string.h") \
    F(0, cstl_string_append, "string.h") \
    F(0, cstl_string_append_ch, "string.h") \
    F(0, cstl_string_append_str_n, "string.h") \
    F(0, cstl_string_append_str, "string.h") \
    F(0, cstl_string_set_str, "string.h") \
    F(1, cstl_string_erase, "string.h") \
    F(1, cstl_string_substr, "string.h") \
    F(1, cstl_string_find_ch, "string.h") \
    F(1, cstl_string_find_str, "string.h") \
    F(0, cstl_string_find, "string.h") \
    F(0, cstl_string_swap, "string.h") \
    F(0, cstl_wstring_init, "string.h") \
    F(0, cstl_wstring_size, "string.h") \
    F(0, cstl_wstring_capacity, "string.h") \
    F(0, cstl_wstring_reserve, "string.h") \
    F(1, cstl_wstring_resize, "string.h") \
    F(1, cstl_wstring_at, "string.h") \
    F(1, cstl_wstring_at_const, "string.h") \
    F(0, cstl_wstring_data, "string.h") \
    F(1, cstl_wstring_str, "string.h") \
    F(0, cstl_wstring_compare_str, "string.h") \
    F(0, cstl_wstring_compare, "string.h") \
    F(0, cstl_wstring_clear, "string.h") \
    F(1, cstl_wstring_insert_ch, "string.h") \
    F(1, cstl_wstring_insert_str_n, "string.h") \
    F(0, cstl_wstring_insert_str, "string.h") \
    F(0, cstl_wstring_insert, "string.h") \
    F(0, cstl_wstring_append, "string.h") \
    F(0, cstl_wstring_append_ch, "string.h") \
    F(0, cstl_wstring_append_str_n, "string.h") \
    F(0, cstl_wstring_append_str, "string.h") \
    F(0, cstl_wstring_set_str, "string.h") \
    F(1, cstl_wstring_erase, "string.h") \
    F(1, cstl_wstring_substr, "string.h") \
    F(1, cstl_wstring_find_ch, "string.h") \
    F(1, cstl_wstring_find_str, "string.h") \
    F(0, cstl_wstring_find, "string.h") \
    F(0, cstl_wstring_swap, "string.h") \
    /* end */

typedef void (*c18_fn_t)(void);

struct obj
{
    int key;
    int val;
    struct cstl_dlist_node dn;
    struct cstl_slist_node sn;
    struct cstl_hash_node hn;
    struct cstl_bintree_node bn;
    struct cstl_rbtree_node rn;
    struct cstl_heap_node pn;
};

struct world
{
    struct cstl_vector * vec;
    struct cstl_dlist * dl;
    struct cstl_slist * sl;
    struct cstl_hash * hash;
    struct cstl_bintree * bt;
    struct cstl_rbtree * rb;
    struct cstl_heap * heap;
    cstl_map_t * map;
    cstl_string_t * str;
    cstl_wstring_t * wstr;
    struct cstl_guarded_ptr * gp;
    cstl_unique_ptr_t * up;
    cstl_shared_ptr_t * sp;
    cstl_weak_ptr_t * wp;
    cstl_array_t * arr;
};

/* what each of the two translation units offers to the other */
#define C18_DECLARE_TU(P)                                               \
    size_t P(nfunc)(void);                                              \
    c18_fn_t P(func)(size_t);                                           \
    const char * P(func_name)(size_t);                                  \
    const char * P(func_hdr)(size_t);                                   \
    int P(func_extern)(size_t);                                         \
    const void * P(data)(int);                                          \
    struct world * P(static_world)(void);                               \
    struct world * P(init_world)(void);                                 \
    void P(free_world)(struct world *);                                 \
    void P(fill)(struct world *, struct obj *, size_t);                 \
    unsigned P(check)(const struct world *, struct obj *, size_t);      \
    unsigned P(drain)(struct world *, struct obj *, size_t);            \
    size_t P(sizeof_all)(void)

C18_DECLARE_TU(ME);
C18_DECLARE_TU(PEER);

static unsigned c18_failures;
#define CK(COND)                                                        \
    do {                                                                \
        if (!(COND)) {                                                  \
            if (c18_failures++ < 20) {                                  \
                fprintf(stderr, "%s:%d: [%s] failed: %s\n",             \
                        __FILE__, __LINE__, ME_NAME, #COND);            \
            }                                                           \
        }                                                               \
    } while (0)

/*
 * the address of every declared function, as seen by this TU
 */
#define F(EXT, NAME, HDR)       { (c18_fn_t)NAME, #NAME, HDR, EXT },
static const struct
{
    c18_fn_t fn;
    const char * name;
    const char * hdr;
    int ext;
} c18_functions[] = {
    C18_FUNCTIONS
};
#undef F

size_t ME(nfunc)(void)
{
    return sizeof(c18_functions) / sizeof(c18_functions[0]);
}

c18_fn_t ME(func)(const size_t i)
{
    return c18_functions[i].fn;
}

const char * ME(func_name)(const size_t i)
{
    return c18_functions[i].name;
}

const char * ME(func_hdr)(const size_t i)
{
    return c18_functions[i].hdr;
}

int ME(func_extern)(const size_t i)
{
    return c18_functions[i].ext;
}

const void * ME(data)(const int which)
{
    return (which == 0)
        ? (const void *)&cstl_string_nul : (const void *)&cstl_wstring_nul;
}

/* the two TUs must agree about the size of every public object */
size_t ME(sizeof_all)(void)
{
    return sizeof(struct cstl_vector) + 3 * sizeof(struct cstl_dlist)
        + 5 * sizeof(struct cstl_slist) + 7 * sizeof(struct cstl_hash)
        + 11 * sizeof(struct cstl_bintree) + 13 * sizeof(struct cstl_rbtree)
        + 17 * sizeof(struct cstl_heap) + 19 * sizeof(cstl_map_t)
        + 23 * sizeof(cstl_string_t) + 29 * sizeof(cstl_wstring_t)
        + 31 * sizeof(struct cstl_guarded_ptr)
        + 37 * sizeof(cstl_unique_ptr_t) + 41 * sizeof(cstl_shared_ptr_t)
        + 43 * sizeof(cstl_weak_ptr_t) + 47 * sizeof(cstl_array_t)
        + 53 * sizeof(struct obj) + 59 * sizeof(cstl_map_iterator_t);
}

static int obj_cmp(const void * const a, const void * const b, void * const p)
{
    (void)p;
    return ((const struct obj *)a)->key - ((const struct obj *)b)->key;
}

static int int_cmp(const void * const a, const void * const b, void * const p)
{
    (void)p;
    return *(const int *)a - *(const int *)b;
}

/*
 * objects with external linkage, initialised at compile time
 */
DECLARE_CSTL_VECTOR(ME(s_vec), int);
DECLARE_CSTL_DLIST(ME(s_dl), struct obj, dn);
DECLARE_CSTL_SLIST(ME(s_sl), struct obj, sn);
DECLARE_CSTL_HASH(ME(s_hash), struct obj, hn);
DECLARE_CSTL_BINTREE(ME(s_bt), struct obj, bn, obj_cmp, NULL);
DECLARE_CSTL_RBTREE(ME(s_rb), struct obj, rn, obj_cmp, NULL);
DECLARE_CSTL_HEAP(ME(s_heap), struct obj, pn, obj_cmp, NULL);
cstl_map_t ME(s_map);
DECLARE_CSTL_STRING(string, ME(s_str));
DECLARE_CSTL_STRING(wstring, ME(s_wstr));
DECLARE_CSTL_GUARDED_PTR(ME(s_gp));
DECLARE_CSTL_UNIQUE_PTR(ME(s_up));
DECLARE_CSTL_SHARED_PTR(ME(s_sp));
DECLARE_CSTL_WEAK_PTR(ME(s_wp));
DECLARE_CSTL_ARRAY(ME(s_arr));

struct world * ME(static_world)(void)
{
    static struct world w;
    if (w.vec == NULL) {
        w.vec = &ME(s_vec);
        w.dl = &ME(s_dl);
        w.sl = &ME(s_sl);
        w.hash = &ME(s_hash);
        w.bt = &ME(s_bt);
        w.rb = &ME(s_rb);
        w.heap = &ME(s_heap);
        w.map = &ME(s_map);
        cstl_map_init(w.map, int_cmp, NULL);
        w.str = &ME(s_str);
        w.wstr = &ME(s_wstr);
        w.gp = &ME(s_gp);
        w.up = &ME(s_up);
        w.sp = &ME(s_sp);
        w.wp = &ME(s_wp);
        w.arr = &ME(s_arr);
    }
    return &w;
}

/*
 * the same objects, allocated and initialised at run time
 */
struct world * ME(init_world)(void)
{
    struct world * const w = malloc(sizeof(*w));
    if (w == NULL) {
        abort();
    }
#define NEW(M)                                  \
    do {                                        \
        w->M = malloc(sizeof(*w->M));           \
        if (w->M == NULL) {                     \
            abort();                            \
        }                                       \
        memset(w->M, 0xa5, sizeof(*w->M));      \
    } while (0)
    NEW(vec); NEW(dl); NEW(sl); NEW(hash); NEW(bt); NEW(rb); NEW(heap);
    NEW(map); NEW(str); NEW(wstr); NEW(gp); NEW(up); NEW(sp); NEW(wp);
    NEW(arr);
#undef NEW
    cstl_vector_init(w->vec, sizeof(int));
    cstl_dlist_init(w->dl, offsetof(struct obj, dn));
    cstl_slist_init(w->sl, offsetof(struct obj, sn));
    cstl_hash_init(w->hash, offsetof(struct obj, hn));
    cstl_bintree_init(w->bt, obj_cmp, NULL, offsetof(struct obj, bn));
    cstl_rbtree_init(w->rb, obj_cmp, NULL, offsetof(struct obj, rn));
    cstl_heap_init(w->heap, obj_cmp, NULL, offsetof(struct obj, pn));
    cstl_map_init(w->map, int_cmp, NULL);
    cstl_string_init(w->str);
    cstl_wstring_init(w->wstr);
    cstl_guarded_ptr_init(w->gp);
    cstl_unique_ptr_init(w->up);
    cstl_shared_ptr_init(w->sp);
    cstl_weak_ptr_init(w->wp);
    cstl_array_init(w->arr);
    return w;
}

void ME(free_world)(struct world * const w)
{
    free(w->vec); free(w->dl); free(w->sl); free(w->hash); free(w->bt);
    free(w->rb); free(w->heap); free(w->map); free(w->str); free(w->wstr);
    free(w->gp); free(w->up); free(w->sp); free(w->wp); free(w->arr);
    free(w);
}

static int key_of(const size_t i)
{
    /* a permutation of 1..1008, so keys are unique for up to 1008 objects */
    return (int)(((i + 1) * 37) % 1009);
}

void ME(fill)(struct world * const w, struct obj * const o, const size_t n)
{
    size_t i;

    cstl_hash_resize(w->hash, 8 + n / 2, (n & 1) ? cstl_hash_div : NULL);
    cstl_string_reserve(w->str, n / 2);

    for (i = 0; i < n; i++) {
        const size_t sz = cstl_vector_size(w->vec);

        o[i].key = key_of(i);
        o[i].val = (int)i;

        cstl_vector_resize(w->vec, sz + 1);
        *(int *)cstl_vector_at(w->vec, sz) = o[i].key;
        cstl_dlist_push_back(w->dl, &o[i]);
        cstl_slist_push_front(w->sl, &o[i]);
        cstl_hash_insert(w->hash, (size_t)o[i].key, &o[i]);
        cstl_bintree_insert(w->bt, &o[i], NULL);
        cstl_rbtree_insert(w->rb, &o[i], NULL);
        cstl_heap_push(w->heap, &o[i]);
        if (cstl_map_insert(w->map, &o[i].key, &o[i].val, NULL) != 0) {
            abort();
        }
        cstl_string_append_ch(w->str, 1, (char)('a' + o[i].key % 26));
        cstl_wstring_append_ch(w->wstr, 1, (wchar_t)(L'a' + o[i].key % 26));
    }

    cstl_vector_sort(w->vec, int_cmp, NULL);
    cstl_vector_reverse(w->vec);
    cstl_vector_reverse(w->vec);

    cstl_guarded_ptr_set(w->gp, o);
    cstl_unique_ptr_alloc(w->up, sizeof(size_t), NULL, NULL);
    *(size_t *)cstl_unique_ptr_get(w->up) = n;
    cstl_shared_ptr_alloc(w->sp, sizeof(size_t), NULL);
    *(size_t *)cstl_shared_ptr_get(w->sp) = n;
    cstl_weak_ptr_from(w->wp, w->sp);
    cstl_array_alloc(w->arr, n + 1, sizeof(int));
    for (i = 0; i <= n; i++) {
        *(int *)cstl_array_at(w->arr, i) = (int)i;
    }
}

static int count_visit(void * const e, void * const p)
{
    (void)e;
    ++*(size_t *)p;
    return 0;
}

static int count_const_visit(const void * const e, void * const p)
{
    (void)e;
    ++*(size_t *)p;
    return 0;
}

static int count_tree_visit(const void * const e,
                            const cstl_bintree_visit_order_t ord,
                            void * const p)
{
    (void)e;
    if (ord == CSTL_BINTREE_VISIT_ORDER_MID
        || ord == CSTL_BINTREE_VISIT_ORDER_LEAF) {
        ++*(size_t *)p;
    }
    return 0;
}

unsigned ME(check)(const struct world * const w,
                   struct obj * const o, const size_t n)
{
    const unsigned before = c18_failures;
    size_t i, cnt, hmin, hmax;
    int maxkey = 0;

    CK(cstl_vector_size(w->vec) == n);
    CK(cstl_vector_capacity(w->vec) >= n);
    CK(n == 0 || cstl_vector_data(w->vec) == cstl_vector_at(w->vec, 0));
    CK(cstl_dlist_size(w->dl) == n);
    CK(cstl_slist_size(w->sl) == n);
    CK(cstl_hash_size(w->hash) == n);
    CK(cstl_hash_load(w->hash) >= 0.0f);
    CK(cstl_bintree_size(w->bt) == n);
    CK(cstl_rbtree_size(w->rb) == n);
    CK(cstl_heap_size(w->heap) == n);
    CK(cstl_map_size(w->map) == n);
    CK(cstl_string_size(w->str) == n);
    CK(cstl_string_capacity(w->str) >= n);
    CK(cstl_wstring_size(w->wstr) == n);
    CK(cstl_array_size(w->arr) == n + 1);
    CK(strlen(cstl_string_str(w->str)) == n);
    CK(wcslen(cstl_wstring_str(w->wstr)) == n);

    for (i = 0; i < n; i++) {
        cstl_map_iterator_t it;
        const int key = key_of(i);

        if (key > maxkey) {
            maxkey = key;
        }

        CK(o[i].key == key);
        CK(cstl_vector_search(w->vec, &key, int_cmp, NULL) >= 0);
        CK(cstl_hash_find(w->hash, (size_t)key, NULL, NULL) == &o[i]);
        CK(cstl_bintree_find(w->bt, &o[i], NULL) == &o[i]);
        CK(cstl_rbtree_find(w->rb, &o[i], NULL) == &o[i]);
        cstl_map_find(w->map, &key, &it);
        CK(!cstl_map_iterator_eq(&it, cstl_map_iterator_end(w->map)));
        CK(it.key == &o[i].key && it.val == &o[i].val);
        CK(*cstl_string_at_const(w->str, i) == (char)('a' + key % 26));
        CK(*cstl_wstring_at_const(w->wstr, i)
           == (wchar_t)(L'a' + key % 26));
        CK(*(const int *)cstl_array_at_const(w->arr, i) == (int)i);
    }
    for (i = 1; i < n; i++) {
        CK(*(const int *)cstl_vector_at_const(w->vec, i - 1)
           < *(const int *)cstl_vector_at_const(w->vec, i));
    }

    if (n > 0) {
        cstl_string_t sub;
        cstl_wstring_t wsub;

        CK(cstl_dlist_front(w->dl) == &o[0]);
        CK(cstl_dlist_back(w->dl) == &o[n - 1]);
        CK(cstl_slist_front(w->sl) == &o[n - 1]);
        CK(cstl_slist_back(w->sl) == &o[0]);
        CK(((const struct obj *)cstl_heap_get(w->heap))->key == maxkey);
        CK(cstl_string_find_ch(w->str, *cstl_string_str(w->str), 0) == 0);
        CK(cstl_wstring_find_ch(w->wstr, *cstl_wstring_str(w->wstr), 0) == 0);

        cstl_string_init(&sub);
        cstl_string_substr(w->str, n / 2, n, &sub);
        CK(cstl_string_size(&sub) == n - n / 2);
        CK(cstl_string_find(w->str, &sub, 0) >= 0);
        CK(cstl_string_compare_str(
               &sub, cstl_string_str(w->str) + n / 2) == 0);
        cstl_string_clear(&sub);

        cstl_wstring_init(&wsub);
        cstl_wstring_substr(w->wstr, n / 2, n, &wsub);
        CK(cstl_wstring_size(&wsub) == n - n / 2);
        CK(cstl_wstring_find(w->wstr, &wsub, 0) >= 0);
        CK(cstl_wstring_compare_str(
               &wsub, cstl_wstring_str(w->wstr) + n / 2) == 0);
        cstl_wstring_clear(&wsub);
    } else {
        CK(cstl_dlist_front(w->dl) == NULL);
        CK(cstl_slist_front(w->sl) == NULL);
        CK(cstl_heap_get(w->heap) == NULL);
        CK(cstl_string_compare_str(w->str, "") == 0);
        CK(cstl_wstring_compare_str(w->wstr, L"") == 0);
    }

    cnt = 0;
    cstl_dlist_foreach(w->dl, count_visit, &cnt, CSTL_DLIST_FOREACH_DIR_REV);
    CK(cnt == n);
    cnt = 0;
    cstl_slist_foreach(w->sl, count_visit, &cnt);
    CK(cnt == n);
    cnt = 0;
    cstl_hash_foreach_const(w->hash, count_const_visit, &cnt);
    CK(cnt == n);
    cnt = 0;
    cstl_bintree_foreach(w->bt, count_tree_visit, &cnt,
                         CSTL_BINTREE_FOREACH_DIR_FWD);
    CK(cnt == n);
    cnt = 0;
    cstl_rbtree_foreach(w->rb, count_tree_visit, &cnt,
                        CSTL_BINTREE_FOREACH_DIR_REV);
    CK(cnt == n);
    cstl_rbtree_height(w->rb, &hmin, &hmax);
    CK(hmin <= hmax && hmax <= 2 * hmin + 2);
    cstl_bintree_height(w->bt, &hmin, &hmax);
    CK(hmin <= hmax && hmax <= n);

    CK(cstl_guarded_ptr_get_const(w->gp) == o);
    CK(*(const size_t *)cstl_unique_ptr_get_const(w->up) == n);
    CK(*(const size_t *)cstl_shared_ptr_get_const(w->sp) == n);
    /* the weak pointer counts as another owner */
    CK(!cstl_shared_ptr_unique(w->sp));
    {
        DECLARE_CSTL_SHARED_PTR(tmp);
        DECLARE_CSTL_ARRAY(slice);

        cstl_weak_ptr_lock(w->wp, &tmp);
        CK(cstl_shared_ptr_get(&tmp) == cstl_shared_ptr_get(w->sp));
        CK(!cstl_shared_ptr_unique(w->sp));
        cstl_shared_ptr_reset(&tmp);
        CK(cstl_shared_ptr_unique(&tmp));

        cstl_array_slice(w->arr, n / 2, n + 1, &slice);
        CK(cstl_array_size(&slice) == n + 1 - n / 2);
        CK(*(int *)cstl_array_at(&slice, 0) == (int)(n / 2));
        CK(cstl_array_data(&slice) == cstl_array_data_const(w->arr));
        cstl_array_reset(&slice);
    }

    CK(cstl_fls((unsigned long)n) == (n == 0 ? -1 : cstl_fls(n | 1)));

    return c18_failures - before;
}

static size_t c18_cleared;
static void count_clear(void * const e, void * const p)
{
    (void)e;
    (void)p;
    c18_cleared++;
}

unsigned ME(drain)(struct world * const w,
                   struct obj * const o, const size_t n)
{
    const unsigned before = c18_failures;
    const size_t half = n / 2;
    size_t i;

    /* half of the elements leave one at a time ... */
    for (i = 0; i < half; i++) {
        const int key = key_of(i);
        struct obj * const e = cstl_dlist_pop_front(w->dl);

        CK(e == &o[i]);
        CK(cstl_slist_pop_front(w->sl) == &o[n - 1 - i]);
        cstl_hash_erase(w->hash, e);
        CK(cstl_bintree_erase(w->bt, e) == e);
        CK(cstl_rbtree_erase(w->rb, e) == e);
        CK(cstl_heap_pop(w->heap) != NULL);
        CK(cstl_map_erase(w->map, &key, NULL) == 0);
    }
    if (half > 0) {
        cstl_vector_resize(w->vec, n - half);
        cstl_vector_shrink_to_fit(w->vec);
        cstl_string_erase(w->str, 0, half);
        cstl_wstring_erase(w->wstr, 0, half);
    }
    cstl_hash_rehash(w->hash);
    cstl_hash_shrink_to_fit(w->hash);

    CK(cstl_vector_size(w->vec) == n - half);
    CK(cstl_dlist_size(w->dl) == n - half);
    CK(cstl_slist_size(w->sl) == n - half);
    CK(cstl_hash_size(w->hash) == n - half);
    CK(cstl_bintree_size(w->bt) == n - half);
    CK(cstl_rbtree_size(w->rb) == n - half);
    CK(cstl_heap_size(w->heap) == n - half);
    CK(cstl_map_size(w->map) == n - half);
    CK(cstl_string_size(w->str) == n - half);
    CK(cstl_wstring_size(w->wstr) == n - half);

    /* ... and the rest all at once */
    c18_cleared = 0;
    cstl_vector_clear(w->vec);
    cstl_dlist_clear(w->dl, count_clear);
    cstl_slist_clear(w->sl, count_clear);
    cstl_hash_clear(w->hash, count_clear);
    cstl_bintree_clear(w->bt, count_clear, NULL);
    cstl_rbtree_clear(w->rb, count_clear, NULL);
    cstl_heap_clear(w->heap, count_clear);
    cstl_map_clear(w->map, count_clear, NULL);
    CK(c18_cleared == 7 * (n - half));
    cstl_string_clear(w->str);
    cstl_wstring_clear(w->wstr);
    cstl_guarded_ptr_set(w->gp, NULL);
    cstl_unique_ptr_reset(w->up);
    cstl_shared_ptr_reset(w->sp);
    {
        DECLARE_CSTL_SHARED_PTR(tmp);
        cstl_weak_ptr_lock(w->wp, &tmp);
        CK(cstl_shared_ptr_get(&tmp) == NULL);
        cstl_shared_ptr_reset(&tmp);
    }
    cstl_weak_ptr_reset(w->wp);
    cstl_array_reset(w->arr);

    CK(cstl_vector_size(w->vec) == 0 && cstl_vector_capacity(w->vec) == 0);
    CK(cstl_dlist_size(w->dl) == 0 && cstl_dlist_back(w->dl) == NULL);
    CK(cstl_slist_size(w->sl) == 0 && cstl_slist_back(w->sl) == NULL);
    CK(cstl_hash_size(w->hash) == 0);
    CK(cstl_bintree_size(w->bt) == 0);
    CK(cstl_rbtree_size(w->rb) == 0);
    CK(cstl_heap_size(w->heap) == 0);
    CK(cstl_map_size(w->map) == 0);
    CK(cstl_string_size(w->str) == 0);
    CK(cstl_wstring_size(w->wstr) == 0);
    CK(cstl_guarded_ptr_get(w->gp) == NULL);
    CK(cstl_unique_ptr_get(w->up) == NULL);
    CK(cstl_shared_ptr_get(w->sp) == NULL);
    CK(cstl_array_size(w->arr) == 0);

    return c18_failures - before;
}

#if !defined(TU) || TU == 1

#include <stdarg.h>

static const char * const c18_headers[] = {
    "array.h", "bintree.h", "common.h", "dlist.h", "hash.h", "heap.h",
    "map.h", "memory.h", "rbtree.h", "slist.h", "string.h", "vector.h",
};
#define NHDR    (sizeof(c18_headers) / sizeof(c18_headers[0]))

static const char * c18_cc = "gcc";
static char c18_dir[512];
static unsigned c18_commands;

/* the project's own flags, with every warning an error */
#define C18_CFLAGS                                                      \
    "-std=c99 -pedantic -Wall -Wextra -Werror=vla "                     \
    "-Werror=declaration-after-statement -D_POSIX_C_SOURCE=199309L "    \
    "-Werror -Iinclude"

static int sh(const char * const fmt, ...)
{
    char cmd[4096];
    va_list ap;
    int n, res;

    va_start(ap, fmt);
    n = vsnprintf(cmd, sizeof(cmd), fmt, ap);
    va_end(ap);
    if (n < 0 || (size_t)n >= sizeof(cmd)) {
        abort();
    }

    c18_commands++;
    res = system(cmd);
    if (res != 0) {
        fprintf(stderr, "command failed (%d): %s\n", res, cmd);
    }
    return res == 0;
}

static FILE * src(const char * const name)
{
    char path[1024];
    FILE * f;

    snprintf(path, sizeof(path), "%s/%s.c", c18_dir, name);
    f = fopen(path, "w");
    if (f == NULL) {
        perror(path);
        abort();
    }
    return f;
}

static int readable(const char * const path)
{
    FILE * const f = fopen(path, "r");
    if (f != NULL) {
        fclose(f);
    }
    return f != NULL;
}

/* compile NAME.c to NAME.o at the given optimisation level */
static int cc(const char * const name, const char * const opt)
{
    return sh("%s %s %s -c -o %s/%s.o %s/%s.c",
              c18_cc, C18_CFLAGS, opt, c18_dir, name, c18_dir, name);
}

/*
 * link the two named objects against the static library (as the linker
 * pleases, and with every member forced in) and against the shared
 * library, and run what comes out
 */
static void link_and_run(const char * const a, const char * const b)
{
    static const char * const libs[] = {
        "build/libcstl.a -lm",
        "-Wl,--whole-archive build/libcstl.a -Wl,--no-whole-archive -lm",
        "-Wl,--no-undefined -Wl,--no-allow-shlib-undefined "
        "build/libcstl.so -lm",
        "-Lbuild -Wl,-rpath,build -Wl,-Bdynamic -lcstl -lm",
        "-Lbuild -Wl,-Bstatic -lcstl -Wl,-Bdynamic -lm",
    };
    size_t i;

    for (i = 0; i < sizeof(libs) / sizeof(libs[0]); i++) {
        if (b != NULL) {
            CK(sh("%s -o %s/%s.exe %s/%s.o %s/%s.o %s",
                  c18_cc, c18_dir, a, c18_dir, a, c18_dir, b, libs[i]));
        } else {
            CK(sh("%s -o %s/%s.exe %s/%s.o %s",
                  c18_cc, c18_dir, a, c18_dir, a, libs[i]));
        }
        CK(sh("%s/%s.exe", c18_dir, a));
    }
}

static void emit_table(FILE * const f, const char * const tab,
                       const char * const only_hdr)
{
    size_t i;

    fprintf(f, "typedef void (*fn_t)(void);\n");
    fprintf(f, "const void * const %s_data[] = {\n", tab);
    if (only_hdr == NULL || strcmp(only_hdr, "string.h") == 0) {
        fprintf(f, "    &cstl_string_nul, &cstl_wstring_nul,\n");
    }
    fprintf(f, "    (const void *)0\n};\n");
    fprintf(f, "const fn_t %s[] = {\n", tab);
    for (i = 0; i < ME(nfunc)(); i++) {
        if (only_hdr == NULL || strcmp(only_hdr, ME(func_hdr)(i)) == 0) {
            fprintf(f, "    (fn_t)%s,\n", ME(func_name)(i));
        } else if (only_hdr != NULL) {
            fprintf(f, "    (fn_t)0,\n");
        }
    }
    fprintf(f, "    (fn_t)0\n};\n");
}

static void emit_compare(FILE * const f, const char * const only_hdr)
{
    size_t i;

    fprintf(f, "extern const fn_t tab_a[];\n");
    fprintf(f, "extern const void * const tab_a_data[];\n");
    fprintf(f, "int main(void)\n{\n    int bad = 0;\n");
    fprintf(f, "    bad += (tab_a_data[0] != tab_b_data[0]);\n");
    for (i = 0; i < ME(nfunc)(); i++) {
        if (only_hdr != NULL && strcmp(only_hdr, ME(func_hdr)(i)) != 0) {
            continue;
        }
        fprintf(f, "    bad += (tab_a[%lu] == (fn_t)0);\n", (unsigned long)i);
        if (ME(func_extern)(i)) {
            fprintf(f, "    bad += (tab_a[%lu] != tab_b[%lu]);\n",
                    (unsigned long)i, (unsigned long)i);
        }
    }
    fprintf(f, "    return bad != 0;\n}\n");
}

static void matrix(const char * const argv0)
{
    char name[64], name2[64];
    size_t i, j;
    FILE * f;

    if (getenv("CC") != NULL && *getenv("CC") != '\0') {
        c18_cc = getenv("CC");
    }

    if (!readable("include/cstl/common.h")
        || !readable("build/libcstl.a") || !readable("build/libcstl.so")
        || strlen(argv0) > sizeof(c18_dir) - 16
        || strchr(argv0, '\'') != NULL || strchr(argv0, ' ') != NULL
        || system(NULL) == 0
        || !sh("%s --version > /dev/null 2>&1", c18_cc)) {
        printf("header matrix SKIPPED: needs to run from the worktree root "
               "after 'make build' with a compiler available\n");
        return;
    }

    snprintf(c18_dir, sizeof(c18_dir), "%s.matrix", argv0);
    if (!sh("rm -rf %s && mkdir -p %s", c18_dir, c18_dir)) {
        CK(!"cannot create the scratch directory");
        return;
    }

    /* every header on its own, as a complete translation unit */
    for (i = 0; i < NHDR; i++) {
        snprintf(name, sizeof(name), "one_%lu", (unsigned long)i);
        f = src(name);
        fprintf(f, "#include \"cstl/%s\"\n", c18_headers[i]);
        fprintf(f, "int c18_%s(void);\n", name);
        fprintf(f, "int c18_%s(void) { return 0; }\n", name);
        fclose(f);
        CK(cc(name, "-O0"));
        CK(cc(name, "-O2"));
        CK(cc(name, "-O2 -DNDEBUG -fPIC"));
    }

    /* every ordered pair (including a header with itself) */
    for (i = 0; i < NHDR; i++) {
        for (j = 0; j < NHDR; j++) {
            snprintf(name, sizeof(name), "pair_%lu_%lu",
                     (unsigned long)i, (unsigned long)j);
            f = src(name);
            fprintf(f, "#include \"cstl/%s\"\n", c18_headers[i]);
            fprintf(f, "#include \"cstl/%s\"\n", c18_headers[j]);
            fprintf(f, "int c18_%s(void);\n", name);
            fprintf(f, "int c18_%s(void) { return 0; }\n", name);
            fclose(f);
            CK(sh("%s %s -O1 -fsyntax-only %s/%s.c",
                  c18_cc, C18_CFLAGS, c18_dir, name));
        }
    }

    /*
     * every header in two translation units of one program; the second
     * one uses something from the header where there is something simple
     */
    for (i = 0; i < NHDR; i++) {
        snprintf(name, sizeof(name), "two_a_%lu", (unsigned long)i);
        f = src(name);
        fprintf(f, "#include \"cstl/%s\"\n", c18_headers[i]);
        emit_table(f, "tab_a", c18_headers[i]);
        fclose(f);
        CK(cc(name, "-O0"));

        snprintf(name2, sizeof(name2), "two_b_%lu", (unsigned long)i);
        f = src(name2);
        fprintf(f, "#include \"cstl/%s\"\n", c18_headers[i]);
        fprintf(f, "#include \"cstl/%s\"\n", c18_headers[i]);
        emit_table(f, "tab_b", c18_headers[i]);
        emit_compare(f, c18_headers[i]);
        fclose(f);
        CK(cc(name2, "-O2"));

        link_and_run(name2, name);
    }

    /* all of them at once: forwards, backwards, doubled; 1 and 2 TUs */
    f = src("all_a");
    for (i = 0; i < NHDR; i++) {
        fprintf(f, "#include \"cstl/%s\"\n", c18_headers[i]);
    }
    emit_table(f, "tab_a", NULL);
    fclose(f);
    CK(cc("all_a", "-O2"));

    f = src("all_b");
    for (j = 0; j < 2; j++) {
        for (i = NHDR; i-- > 0;) {
            fprintf(f, "#include \"cstl/%s\"\n", c18_headers[i]);
        }
    }
    emit_table(f, "tab_b", NULL);
    emit_compare(f, NULL);
    fclose(f);
    CK(cc("all_b", "-O0"));
    link_and_run("all_b", "all_a");

    f = src("all_c");
    for (i = 0; i < NHDR; i++) {
        fprintf(f, "#include \"cstl/%s\"\n", c18_headers[i]);
    }
    emit_table(f, "tab_b", NULL);
    fprintf(f, "#define tab_a tab_b\n#define tab_a_data tab_b_data\n");
    emit_compare(f, NULL);
    fclose(f);
    CK(cc("all_c", "-O1"));
    link_and_run("all_c", NULL);

    /*
     * clients of one string flavour only, linked statically: whatever
     * archive member(s) hold that flavour must be self-sufficient
     */
    f = src("narrow");
    fprintf(f, "#include \"cstl/string.h\"\n");
    fprintf(f, "int main(void)\n{\n    DECLARE_CSTL_STRING(string, s);\n");
    fprintf(f, "    int res;\n");
    fprintf(f, "    cstl_string_set_str(&s, \"hello\");\n");
    fprintf(f, "    cstl_string_insert_ch(&s, 5, 2, '!');\n");
    fprintf(f, "    res = cstl_string_compare_str(&s, \"hello!!\");\n");
    fprintf(f, "    res |= *cstl_string_at(&s, 6) != '!';\n");
    fprintf(f, "    res |= cstl_string_find_str(&s, \"lo\", 0) != 3;\n");
    fprintf(f, "    res |= cstl_string_nul != 0;\n");
    fprintf(f, "    cstl_string_clear(&s);\n    return res != 0;\n}\n");
    fclose(f);
    CK(cc("narrow", "-O2"));
    link_and_run("narrow", NULL);

    f = src("wide");
    fprintf(f, "#include \"cstl/string.h\"\n");
    fprintf(f, "int main(void)\n{\n    DECLARE_CSTL_STRING(wstring, s);\n");
    fprintf(f, "    int res;\n");
    fprintf(f, "    cstl_wstring_set_str(&s, L\"hello\");\n");
    fprintf(f, "    cstl_wstring_insert_ch(&s, 5, 2, L'!');\n");
    fprintf(f, "    res = cstl_wstring_compare_str(&s, L\"hello!!\");\n");
    fprintf(f, "    res |= *cstl_wstring_at(&s, 6) != L'!';\n");
    fprintf(f, "    res |= cstl_wstring_find_str(&s, L\"lo\", 0) != 3;\n");
    fprintf(f, "    res |= cstl_wstring_nul != 0;\n");
    fprintf(f, "    cstl_wstring_clear(&s);\n    return res != 0;\n}\n");
    fclose(f);
    CK(cc("wide", "-O2"));
    link_and_run("wide", NULL);

    /* the libraries themselves: nothing defined twice, nothing missing */
    CK(sh("test -z \"$(nm -g --defined-only build/libcstl.a "
          "| awk 'NF == 3 { print $3 }' | sort | uniq -d)\""));
    CK(sh("nm -D --defined-only build/libcstl.so "
          "| awk '{ print $NF }' | sort -u > %s/so.syms", c18_dir));
    CK(sh("nm -g --defined-only build/libcstl.a "
          "| awk 'NF == 3 { print $3 }' | sort -u > %s/a.syms", c18_dir));
    for (i = 0; i < ME(nfunc)(); i++) {
        if (ME(func_extern)(i)) {
            CK(sh("grep -qx %s %s/so.syms && grep -qx %s %s/a.syms",
                  ME(func_name)(i), c18_dir, ME(func_name)(i), c18_dir));
        }
    }
    CK(sh("grep -qx cstl_string_nul %s/so.syms && "
          "grep -qx cstl_wstring_nul %s/a.syms", c18_dir, c18_dir));

    printf("header matrix: %u commands run\n", c18_commands);
    sh("rm -rf %s", c18_dir);
}

int main(const int argc, char ** const argv)
{
    static const size_t counts[] = { 0, 1, 2, 3, 7, 64, 1000 };
    struct world * worlds[4];
    size_t i, wi, ci;
    unsigned combo;

    /* the address of everything, in both translation units */
    CK(ME(nfunc)() == 203);
    CK(ME(nfunc)() == PEER(nfunc)());
    for (i = 0; i < ME(nfunc)() && i < PEER(nfunc)(); i++) {
        CK(ME(func)(i) != (c18_fn_t)0);
        CK(PEER(func)(i) != (c18_fn_t)0);
        CK(strcmp(ME(func_name)(i), PEER(func_name)(i)) == 0);
        if (ME(func_extern)(i)) {
            /* one definition, in the library, whoever asks */
            CK(ME(func)(i) == PEER(func)(i));
        }
    }
    CK(ME(data)(0) == PEER(data)(0) && ME(data)(1) == PEER(data)(1));
    CK(*(const char *)ME(data)(0) == '\0');
    CK(*(const wchar_t *)PEER(data)(1) == L'\0');
    CK(ME(sizeof_all)() == PEER(sizeof_all)());

    /* objects of either TU handled by the inline functions of either TU */
    worlds[0] = ME(static_world)();
    worlds[1] = PEER(static_world)();
    worlds[2] = ME(init_world)();
    worlds[3] = PEER(init_world)();
    for (wi = 0; wi < 4; wi++) {
        for (ci = 0; ci < sizeof(counts) / sizeof(counts[0]); ci++) {
            for (combo = 0; combo < 8; combo++) {
                const size_t n = counts[ci];
                struct obj * const o = calloc(n + 1, sizeof(*o));
                if (o == NULL) {
                    abort();
                }
                ((combo & 1) ? PEER(fill) : ME(fill))(worlds[wi], o, n);
                CK(((combo & 2) ? PEER(check) : ME(check))(
                       worlds[wi], o, n) == 0);
                CK(((combo & 4) ? PEER(drain) : ME(drain))(
                       worlds[wi], o, n) == 0);
                free(o);
            }
        }
    }
    PEER(free_world)(worlds[2]);
    ME(free_world)(worlds[3]);

    /* generated clients, compiled and linked in every combination */
    if (argc > 1 && strcmp(argv[1], "nomatrix") == 0) {
        printf("header matrix not requested\n");
    } else {
        matrix(argv[0]);
    }

    if (c18_failures != 0) {
        printf("C18: %u check(s) FAILED\n", c18_failures);
        return 1;
    }
    printf("C18: ok\n");
    return 0;
}

#endif
