/*
 * C14: array views never reach outside their buffer, which lives as long
 * as any view.
 *
 * Standalone test, public API only.  malloc/free of the test and of the
 * library are routed through a registry (linker --wrap), so the test knows
 * which heap blocks are alive, notices a block that is freed twice or
 * never, and can make the n-th allocation fail.
 *
 * A reference model (objects = {buffer, off, len}, buffers = {base, nm, sz,
 * external?, refs}) is driven next to the library through many pseudo-random
 * histories of alloc / set / slice / unslice / reset / release; after each
 * step every object is compared with the model through the public
 * accessors, and calls the model says must abort are tried in a forked
 * child which has to die of SIGABRT.
 */
#define _POSIX_C_SOURCE 200809L

#include <stdio.h>
#include <stdlib.h>
#include <string.h>
#include <stdint.h>
#include <signal.h>
#include <unistd.h>
#include <sys/types.h>
#include <sys/wait.h>
#include <sys/resource.h>

#include "cstl/array.h"
#include "cstl/memory.h"

#ifndef TEST_SEED
#define TEST_SEED 0xa14u
#endif

/* ------------------------------------------------------------------ */
/* heap registry                                                       */

void * __real_malloc(size_t);
void __real_free(void *);

#define MAXBLK 4096
static struct blk {
    unsigned char * p;
    size_t n;
    unsigned long serial;
} live[MAXBLK];
static int nlive;
static unsigned long next_serial = 1;
static unsigned long heap_errors;
static long fail_countdown;     /* >0: the n-th malloc from now fails */
static int fail_fired;

void * __wrap_malloc(size_t n)
{
    void * p;

    if (fail_countdown > 0 && --fail_countdown == 0) {
        fail_fired = 1;
        return NULL;
    }
    p = __real_malloc(n);
    if (p != NULL) {
        if (nlive == MAXBLK) {
            fprintf(stderr, "registry full\n");
            _exit(3);
        }
        live[nlive].p = p;
        live[nlive].n = n;
        live[nlive].serial = next_serial++;
        nlive++;
    }
    return p;
}

void __wrap_free(void * p)
{
    int i;

    if (p == NULL) {
        return;
    }
    for (i = 0; i < nlive; i++) {
        if (live[i].p == (unsigned char *)p) {
            /* poison, so that stale views are noticed */
            memset(p, 0xdd, live[i].n);
            live[i] = live[--nlive];
            __real_free(p);
            return;
        }
    }
    /* not alive: freed twice, or never allocated */
    heap_errors++;
}

static const struct blk * blk_containing(const void * p, size_t bytes)
{
    int i;
    for (i = 0; i < nlive; i++) {
        const unsigned char * const b = live[i].p;
        if ((const unsigned char *)p >= b
            && (const unsigned char *)p + bytes <= b + live[i].n
            && bytes <= live[i].n) {
            return &live[i];
        }
    }
    return NULL;
}

/* does the live block with this serial number hold [p, p + bytes)? */
static int blk_holds(unsigned long serial, const void * p, size_t bytes)
{
    int i;
    for (i = 0; i < nlive; i++) {
        if (live[i].serial == serial) {
            const unsigned char * const b = live[i].p;
            return (const unsigned char *)p >= b
                && bytes <= live[i].n
                && (const unsigned char *)p + bytes <= b + live[i].n;
        }
    }
    return 0;
}

/*
 * the block holding the elements of an array the library allocated; with
 * no bytes to hold, a block that merely starts at p is not a candidate
 */
static const struct blk * blk_of_elements(const void * p, size_t bytes)
{
    int i;
    if (bytes > 0) {
        return blk_containing(p, bytes);
    }
    for (i = 0; i < nlive; i++) {
        const unsigned char * const b = live[i].p;
        if ((const unsigned char *)p > b
            && (const unsigned char *)p <= b + live[i].n) {
            return &live[i];
        }
    }
    return blk_containing(p, bytes);
}

static int serial_live(unsigned long s)
{
    int i;
    for (i = 0; i < nlive; i++) {
        if (live[i].serial == s) {
            return 1;
        }
    }
    return 0;
}

/* ------------------------------------------------------------------ */

#define FAIL(...)                                                   \
    do {                                                            \
        fprintf(stderr, "FAIL %s:%d: ", __FILE__, __LINE__);        \
        fprintf(stderr, __VA_ARGS__);                               \
        fprintf(stderr, "\n");                                      \
        exit(1);                                                    \
    } while (0)
#define CHECK(c) do { if (!(c)) FAIL("%s", #c); } while (0)

static uint64_t rng_state = 0x9e3779b97f4a7c15ull;
static uint64_t rnd(void)
{
    uint64_t x = rng_state;
    x ^= x << 13; x ^= x >> 7; x ^= x << 17;
    return rng_state = x;
}
static size_t rnd_below(size_t n) { return n ? (size_t)(rnd() % n) : 0; }

/* run fn(arg) in a child; 1 if it died of SIGABRT, 0 if it returned */
static int aborts(void (* fn)(void *), void * arg)
{
    pid_t pid;
    int st;

    fflush(NULL);
    pid = fork();
    if (pid < 0) {
        FAIL("fork");
    }
    if (pid == 0) {
        struct rlimit rl;
        rl.rlim_cur = rl.rlim_max = 0;
        setrlimit(RLIMIT_CORE, &rl);
        fn(arg);
        _exit(0);
    }
    if (waitpid(pid, &st, 0) != pid) {
        FAIL("waitpid");
    }
    if (WIFSIGNALED(st)) {
        if (WTERMSIG(st) != SIGABRT) {
            FAIL("child died of signal %d, not SIGABRT", WTERMSIG(st));
        }
        return 1;
    }
    if (!WIFEXITED(st) || WEXITSTATUS(st) != 0) {
        FAIL("child exit status %d", st);
    }
    return 0;
}

struct at_probe { cstl_array_t * a; size_t i; int cst; };
static void do_at(void * v)
{
    struct at_probe * const p = v;
    volatile const void * r;
    if (p->cst) {
        r = cstl_array_at_const(p->a, p->i);
    } else {
        r = cstl_array_at(p->a, p->i);
    }
    (void)r;
}
struct sl_probe { cstl_array_t * a, * s; size_t beg, end; };
static void do_slice(void * v)
{
    struct sl_probe * const p = v;
    cstl_array_slice(p->a, p->beg, p->end, p->s);
}
static void do_unslice(void * v)
{
    struct sl_probe * const p = v;
    cstl_array_unslice(p->a, p->s);
}

static void must_abort_at(cstl_array_t * a, size_t i)
{
    struct at_probe p;
    p.a = a; p.i = i; p.cst = (int)(rnd() & 1);
    if (!aborts(do_at, &p)) {
        FAIL("cstl_array_at(size %lu, index %lu) did not abort",
             (unsigned long)cstl_array_size(a), (unsigned long)i);
    }
}
static void must_abort_slice(cstl_array_t * a, size_t b, size_t e,
                             cstl_array_t * s)
{
    struct sl_probe p;
    p.a = a; p.s = s; p.beg = b; p.end = e;
    if (!aborts(do_slice, &p)) {
        FAIL("cstl_array_slice(size %lu, %lu, %lu) did not abort",
             (unsigned long)cstl_array_size(a),
             (unsigned long)b, (unsigned long)e);
    }
}
static void must_abort_unslice(cstl_array_t * a, cstl_array_t * s)
{
    struct sl_probe p;
    p.a = a; p.s = s; p.beg = p.end = 0;
    if (!aborts(do_unslice, &p)) {
        FAIL("cstl_array_unslice of an empty object did not abort");
    }
}

/* ------------------------------------------------------------------ */
/* model                                                               */

#define NOBJ 7
#define NBUF (NOBJ + 1)

struct mbuf {
    int used, ext;
    size_t nm, sz;
    unsigned char * base;
    unsigned char * shadow;     /* expected contents, nm * sz bytes */
    int refs;
    unsigned long serial;       /* heap block holding the elements */
};
struct mobj { int buf; size_t off, len; };

/* three objects use the static initialiser, the rest the init function */
static cstl_array_t sobj0 = CSTL_ARRAY_INITIALIZER(sobj0);
static DECLARE_CSTL_ARRAY(sobj1);
static cstl_array_t sobjs[2] = {
    CSTL_ARRAY_INITIALIZER(sobjs[0]),
    CSTL_ARRAY_INITIALIZER(sobjs[1]),
};
static cstl_array_t dobjs[NOBJ];

static cstl_array_t * O[NOBJ];
static struct mobj M[NOBJ];
static struct mbuf B[NBUF];

#define CANARY 16

static int buf_new(void)
{
    int i;
    for (i = 0; i < NBUF; i++) {
        if (!B[i].used) {
            memset(&B[i], 0, sizeof(B[i]));
            B[i].used = 1;
            return i;
        }
    }
    FAIL("model out of buffers");
    return -1;
}

/* the model drops one reference; returns 1 if the buffer is now gone */
static void buf_unref(int b, int released)
{
    if (b < 0) {
        return;
    }
    CHECK(B[b].refs > 0);
    if (--B[b].refs == 0) {
        if (B[b].ext) {
            size_t k;
            /* the library must never free or touch an external buffer */
            if (!serial_live(B[b].serial)) {
                FAIL("external buffer was freed by the library");
            }
            CHECK(memcmp(B[b].base, B[b].shadow, B[b].nm * B[b].sz) == 0);
            for (k = 0; k < CANARY; k++) {
                CHECK(B[b].base[B[b].nm * B[b].sz + k] == 0xc5);
            }
            (void)released;
            free(B[b].base);
        } else {
            /* released exactly once, and right now */
            if (serial_live(B[b].serial)) {
                FAIL("allocated buffer still alive after its last view");
            }
        }
        free(B[b].shadow);
        B[b].used = 0;
    }
}

static unsigned char pat(int b, size_t byte)
{
    return (unsigned char)(0x31 * (unsigned)(b + 1) + 7 * byte + (byte >> 8));
}

static void verify_all(int probe_aborts)
{
    int i, anyused = 0;

    if (heap_errors) {
        FAIL("free() of a block that is not alive (%lu)", heap_errors);
    }

    for (i = 0; i < NBUF; i++) {
        int refs = 0, j;
        if (!B[i].used) {
            continue;
        }
        anyused = 1;
        for (j = 0; j < NOBJ; j++) {
            refs += (M[j].buf == i);
        }
        CHECK(refs == B[i].refs && refs > 0);
        if (!serial_live(B[i].serial)) {
            FAIL("buffer freed while %d view(s) refer to it", refs);
        }
        CHECK(blk_holds(B[i].serial, B[i].base, B[i].nm * B[i].sz));
        if (memcmp(B[i].base, B[i].shadow, B[i].nm * B[i].sz) != 0) {
            FAIL("element storage was modified behind the user's back");
        }
        if (B[i].ext) {
            size_t k;
            for (k = 0; k < CANARY; k++) {
                CHECK(B[i].base[B[i].nm * B[i].sz + k] == 0xc5);
            }
        }
    }
    if (!anyused && nlive != 0) {
        FAIL("%d heap block(s) leaked", nlive);
    }

    for (i = 0; i < NOBJ; i++) {
        cstl_array_t * const a = O[i];
        const struct mobj * const m = &M[i];
        size_t k;

        if (cstl_array_size(a) != m->len) {
            FAIL("object %d: size %lu, expected %lu", i,
                 (unsigned long)cstl_array_size(a), (unsigned long)m->len);
        }
        if (m->buf < 0) {
            CHECK(m->len == 0);
            CHECK(cstl_array_data(a) == NULL);
            CHECK(cstl_array_data_const(a) == NULL);
        } else {
            const struct mbuf * const b = &B[m->buf];
            CHECK(m->off <= b->nm && m->len <= b->nm - m->off);
            CHECK(cstl_array_data(a) == (void *)b->base);
            CHECK(cstl_array_data_const(a) == (const void *)b->base);
            for (k = 0; k < m->len; k++) {
                unsigned char * const want = b->base + (m->off + k) * b->sz;
                if ((unsigned char *)cstl_array_at(a, k) != want
                    || (const unsigned char *)cstl_array_at_const(a, k)
                    != want) {
                    FAIL("object %d: at(%lu) is %p, expected %p", i,
                         (unsigned long)k, cstl_array_at(a, k),
                         (void *)want);
                }
                /* inside the live buffer */
                CHECK(want >= b->base
                      && want + b->sz <= b->base + b->nm * b->sz);
            }
        }
    }

    if (probe_aborts) {
        const int o = (int)rnd_below(NOBJ);
        cstl_array_t * const a = O[o];
        const struct mobj * const m = &M[o];
        size_t cand[12];
        size_t n = 0;
        const size_t bnm = m->buf >= 0 ? B[m->buf].nm : 0;
        const size_t bsz = m->buf >= 0 && B[m->buf].sz ? B[m->buf].sz : 1;

        cand[n++] = m->len;
        cand[n++] = m->len + 1;
        cand[n++] = bnm - m->off;
        cand[n++] = bnm;
        cand[n++] = bnm + 1;
        cand[n++] = SIZE_MAX;
        cand[n++] = SIZE_MAX - 1;
        cand[n++] = SIZE_MAX - m->off;
        cand[n++] = SIZE_MAX - m->off + 1;     /* off + i wraps to 0 */
        cand[n++] = SIZE_MAX / bsz + 1;         /* i * sz wraps */
        cand[n++] = SIZE_MAX / bsz + 1 - m->off;
        cand[n++] = (SIZE_MAX >> 1) + 1;
        {
            const size_t i1 = cand[rnd_below(n)];
            if (i1 >= m->len) {
                must_abort_at(a, i1);
            }
        }
    }
}

/* write through a view, keeping the shadow in step */
static void scribble(int o)
{
    const struct mobj * const m = &M[o];
    size_t k, j;
    if (m->buf < 0) {
        return;
    }
    for (k = 0; k < m->len; k++) {
        unsigned char * const e = cstl_array_at(O[o], k);
        for (j = 0; j < B[m->buf].sz; j++) {
            const size_t byte = (m->off + k) * B[m->buf].sz + j;
            const unsigned char v = (unsigned char)(pat(m->buf, byte) ^ (rnd() & 0xff));
            e[j] = v;
            B[m->buf].shadow[byte] = v;
        }
    }
}

static const size_t SIZES[] = { 1, 2, 3, 4, 8, 12, 16, 24, 40, 0 };
#define NSIZES (sizeof(SIZES) / sizeof(SIZES[0]))

static void obj_detach(int o, int released)
{
    const int b = M[o].buf;
    M[o].buf = -1;
    M[o].off = M[o].len = 0;
    buf_unref(b, released);
}

static void op_alloc(int o, int inject)
{
    const size_t nm = rnd_below(4) == 0 ? rnd_below(3) : 1 + rnd_below(40);
    const size_t sz = SIZES[rnd_below(NSIZES)];
    cstl_array_t * const a = O[o];

    fail_fired = 0;
    fail_countdown = inject;
    cstl_array_alloc(a, nm, sz);
    fail_countdown = 0;

    /* whatever happens, the old view is gone */
    obj_detach(o, 0);

    if (fail_fired) {
        /* a failed allocation leaves the object empty */
        CHECK(cstl_array_size(a) == 0);
        CHECK(cstl_array_data(a) == NULL);
    } else {
        const struct blk * k;
        const int b = buf_new();
        size_t i;

        CHECK(cstl_array_size(a) == nm);
        CHECK(cstl_array_data(a) != NULL);
        B[b].ext = 0;
        B[b].nm = nm;
        B[b].sz = sz;
        B[b].base = cstl_array_data(a);
        B[b].refs = 1;
        k = blk_of_elements(B[b].base, nm * sz);
        if (k == NULL) {
            FAIL("allocated elements are not inside one live heap block");
        }
        B[b].serial = k->serial;
        B[b].shadow = malloc(nm * sz + 1);
        CHECK(B[b].shadow != NULL);
        M[o].buf = b;
        M[o].off = 0;
        M[o].len = nm;
        /* give the fresh elements a known content, through the API */
        for (i = 0; i < nm; i++) {
            unsigned char * const e = cstl_array_at(a, i);
            size_t j;
            CHECK(e == B[b].base + i * sz);
            for (j = 0; j < sz; j++) {
                e[j] = B[b].shadow[i * sz + j] = pat(b, i * sz + j);
            }
        }
    }
}

static void op_alloc_unrepresentable(int o)
{
    static const size_t big[][2] = {
        { SIZE_MAX, 2 }, { SIZE_MAX, SIZE_MAX }, { SIZE_MAX / 2 + 1, 2 },
        { SIZE_MAX / 3 + 1, 3 }, { SIZE_MAX / 8 + 1, 8 }, { 2, SIZE_MAX },
        { ((size_t)1 << (sizeof(size_t) * 4)), ((size_t)1 << (sizeof(size_t) * 4)) },
        { ((size_t)1 << (sizeof(size_t) * 4)) + 1, ((size_t)1 << (sizeof(size_t) * 4)) },
        /* the product fits, product plus any bookkeeping does not */
        { SIZE_MAX, 1 }, { SIZE_MAX - 1, 1 }, { SIZE_MAX - 7, 1 },
        { SIZE_MAX - 8, 1 }, { SIZE_MAX - 15, 1 }, { SIZE_MAX - 16, 1 },
        { SIZE_MAX - 23, 1 }, { SIZE_MAX - 24, 1 }, { SIZE_MAX - 31, 1 },
        { SIZE_MAX - 32, 1 }, { SIZE_MAX - 40, 1 }, { SIZE_MAX - 64, 1 },
        { SIZE_MAX / 4, 4 }, { SIZE_MAX / 16, 16 }, { SIZE_MAX / 24, 24 },
        /* representable, but no heap can have it */
        { SIZE_MAX / 2, 1 }, { SIZE_MAX / 2 + 1, 1 }, { SIZE_MAX / 4, 2 },
        { SIZE_MAX / 64, 24 },
    };
    const size_t n = sizeof(big) / sizeof(big[0]);
    const size_t k = rnd_below(n);
    cstl_array_t * const a = O[o];

    cstl_array_alloc(a, big[k][0], big[k][1]);
    obj_detach(o, 0);
    if (cstl_array_size(a) != 0 || cstl_array_data(a) != NULL) {
        FAIL("alloc(%lu, %lu) did not leave the object empty",
             (unsigned long)big[k][0], (unsigned long)big[k][1]);
    }
}

static void op_set(int o, int inject)
{
    const size_t nm = rnd_below(5) == 0 ? 0 : 1 + rnd_below(40);
    size_t sz = SIZES[rnd_below(NSIZES)];
    cstl_array_t * const a = O[o];
    unsigned char * ext;
    const struct blk * k;
    unsigned long ext_serial;
    size_t i;

    if (sz == 0) {
        sz = 5;
    }
    ext = malloc(nm * sz + CANARY);
    CHECK(ext != NULL);
    k = blk_containing(ext, nm * sz + CANARY);
    CHECK(k != NULL);
    ext_serial = k->serial;     /* the registry moves entries around */

    fail_fired = 0;
    fail_countdown = inject;
    cstl_array_set(a, ext, nm, sz);
    fail_countdown = 0;

    obj_detach(o, 0);

    if (fail_fired) {
        CHECK(cstl_array_size(a) == 0);
        CHECK(cstl_array_data(a) == NULL);
        free(ext);
    } else {
        const int b = buf_new();
        CHECK(cstl_array_size(a) == nm);
        CHECK(cstl_array_data(a) == (void *)ext);
        B[b].ext = 1;
        B[b].nm = nm;
        B[b].sz = sz;
        B[b].base = ext;
        B[b].refs = 1;
        B[b].serial = ext_serial;
        B[b].shadow = malloc(nm * sz + 1);
        CHECK(B[b].shadow != NULL);
        for (i = 0; i < nm * sz; i++) {
            ext[i] = B[b].shadow[i] = pat(b, i);
        }
        memset(ext + nm * sz, 0xc5, CANARY);
        M[o].buf = b;
        M[o].off = 0;
        M[o].len = nm;
    }
}

static size_t pick_bound(const struct mobj * m, size_t bnm)
{
    const size_t room = bnm - m->off;
    switch (rnd_below(20)) {
    case 0: return 0;
    case 1: return 1;
    case 2: return m->len / 2;
    case 3: return m->len ? m->len - 1 : 0;
    case 4: return m->len;
    case 5: return m->len + 1;
    case 6: return room;
    case 7: return room + 1;
    case 8: return room ? room - 1 : 0;
    case 9: return bnm;
    case 10: return bnm + 1;
    case 11: return SIZE_MAX;
    case 12: return SIZE_MAX - 1;
    case 13: return SIZE_MAX - m->off;
    case 14: return SIZE_MAX - m->off + 1;          /* off + x == 0 */
    case 15: return SIZE_MAX - m->off + 1 + rnd_below(room + 1);
    case 16: return (SIZE_MAX >> 1) + 1;
    case 17: return (SIZE_MAX >> 1);
    default: return rnd_below(room + 2);
    }
}

static void op_slice(int o, int d)
{
    struct mobj * const m = &M[o];
    const size_t bnm = m->buf >= 0 ? B[m->buf].nm : 0;
    const size_t room = bnm - m->off;
    size_t beg, end;
    int ok;

    if (rnd_below(10) < 6) {
        end = rnd_below(room + 1);
        beg = rnd_below(end + 1);
    } else {
        beg = pick_bound(m, bnm);
        end = pick_bound(m, bnm);
    }

    ok = m->buf >= 0 && beg <= end && end <= room;
    if (!ok) {
        must_abort_slice(O[o], beg, end, O[d]);
        return;
    }

    cstl_array_slice(O[o], beg, end, O[d]);
    {
        const int b = m->buf;
        const size_t noff = m->off + beg;
        B[b].refs++;            /* keep it alive across the detach */
        obj_detach(d, 0);
        M[d].buf = b;
        M[d].off = noff;
        M[d].len = end - beg;
        /* refs was bumped for the new view; nothing else to do */
    }
}

static void op_unslice(int o, int d)
{
    struct mobj * const m = &M[o];
    if (m->buf < 0) {
        must_abort_unslice(O[o], O[d]);
        return;
    }
    cstl_array_unslice(O[o], O[d]);
    {
        const int b = m->buf;
        B[b].refs++;
        obj_detach(d, 0);
        M[d].buf = b;
        M[d].off = 0;
        M[d].len = B[b].nm;
    }
}

static void op_reset(int o)
{
    cstl_array_reset(O[o]);
    obj_detach(o, 0);
}

static void op_release(int o)
{
    struct mobj * const m = &M[o];
    void * p = (void *)&p;      /* must be overwritten */
    const int with_out = rnd_below(4) != 0;
    const int expect = m->buf >= 0 && B[m->buf].ext && B[m->buf].refs == 1;

    cstl_array_release(O[o], with_out ? &p : NULL);
    if (expect) {
        if (with_out) {
            CHECK(p == (void *)B[m->buf].base);
        }
        obj_detach(o, 1);
    } else {
        if (with_out) {
            CHECK(p == NULL);
        }
        /* nothing changes; verify_all() checks that */
    }
}

static void history(int steps)
{
    int i;

    for (i = 0; i < NOBJ; i++) {
        CHECK(M[i].buf < 0);
    }
    verify_all(0);

    for (i = 0; i < steps; i++) {
        const int o = (int)rnd_below(NOBJ);
        const int d = rnd_below(4) == 0 ? o : (int)rnd_below(NOBJ);

        switch (rnd_below(20)) {
        case 0: case 1: case 2:
            op_alloc(o, 0);
            break;
        case 3:
            op_alloc(o, 1 + (int)rnd_below(4));
            break;
        case 4:
            op_alloc_unrepresentable(o);
            break;
        case 5: case 6:
            op_set(o, 0);
            break;
        case 7:
            op_set(o, rnd_below(3) == 0 ? 1 + (int)rnd_below(4) : 0);
            break;
        case 8: case 9: case 10: case 11: case 12: case 13:
            op_slice(o, d);
            break;
        case 14: case 15:
            op_unslice(o, d);
            break;
        case 16:
            op_reset(o);
            break;
        case 17: case 18:
            op_release(o);
            break;
        default:
            scribble(o);
            break;
        }
        verify_all(rnd_below(4) == 0);
    }

    /* wind down: release what can be released, reset the rest */
    for (i = 0; i < NOBJ; i++) {
        if (rnd() & 1) {
            op_release(i);
            verify_all(0);
        }
        op_reset(i);
        verify_all(0);
    }
    if (nlive != 0) {
        FAIL("%d heap block(s) leaked at the end of a history", nlive);
    }
}

/* ------------------------------------------------------------------ */
/* directed scenarios                                                  */

static void directed_basic(void)
{
    DECLARE_CSTL_ARRAY(a);
    DECLARE_CSTL_ARRAY(s);
    cstl_array_t t;
    int i;

    cstl_array_init(&t);
    CHECK(nlive == 0);

    cstl_array_alloc(&a, 30, sizeof(int));
    CHECK(cstl_array_size(&a) == 30);
    for (i = 0; i < 30; i++) {
        *(int *)cstl_array_at(&a, i) = i * 3;
    }
    cstl_array_slice(&a, 20, 30, &s);
    CHECK(cstl_array_size(&s) == 10);
    CHECK(cstl_array_at(&a, 20) == cstl_array_at(&s, 0));
    CHECK(cstl_array_at(&a, 29) == cstl_array_at(&s, 9));
    must_abort_at(&s, 10);
    must_abort_at(&a, 30);
    must_abort_at(&a, (size_t)-1);
    must_abort_slice(&a, 20, 31, &t);
    must_abort_slice(&a, 20, 10, &t);
    must_abort_slice(&s, 0, 11, &t);
    must_abort_slice(&s, 5, SIZE_MAX - 19, &t);     /* 20 + end wraps to 0 */
    must_abort_slice(&s, 0, SIZE_MAX - 14, &t);     /* 20 + end wraps to 5 */
    must_abort_slice(&s, SIZE_MAX, SIZE_MAX, &t);
    must_abort_slice(&t, 0, 0, &s);
    must_abort_unslice(&t, &s);
    must_abort_unslice(&t, &t);

    /* a slice may end behind its parent's end, not behind the buffer's */
    cstl_array_slice(&a, 5, 10, &t);
    CHECK(cstl_array_size(&t) == 5);
    cstl_array_slice(&t, 2, 25, &t);                /* in place */
    CHECK(cstl_array_size(&t) == 23);
    CHECK(cstl_array_at(&t, 0) == cstl_array_at(&a, 7));
    CHECK(cstl_array_at(&t, 22) == cstl_array_at(&a, 29));
    must_abort_at(&t, 23);
    must_abort_slice(&t, 0, 24, &t);
    cstl_array_slice(&t, 23, 23, &t);               /* empty, at the end */
    CHECK(cstl_array_size(&t) == 0);
    must_abort_at(&t, 0);
    must_abort_slice(&t, 0, 1, &t);
    cstl_array_slice(&t, 0, 0, &t);
    cstl_array_unslice(&t, &t);                     /* in place */
    CHECK(cstl_array_size(&t) == 30);
    CHECK(cstl_array_at(&t, 0) == cstl_array_at(&a, 0));

    cstl_array_reset(&a);
    CHECK(cstl_array_size(&a) == 0);
    must_abort_at(&a, 0);
    CHECK(*(int *)cstl_array_at(&s, 3) == 23 * 3);  /* still alive */
    cstl_array_unslice(&s, &a);
    CHECK(cstl_array_size(&a) == 30);
    CHECK(*(int *)cstl_array_at(&a, 29) == 29 * 3);
    cstl_array_reset(&a);
    cstl_array_reset(&t);
    CHECK(cstl_array_size(&s) == 10);
    CHECK(*(int *)cstl_array_at(&s, 9) == 29 * 3);
    CHECK(nlive > 0);
    cstl_array_reset(&s);
    CHECK(nlive == 0);
    cstl_array_reset(&s);                           /* idempotent */
    CHECK(nlive == 0 && heap_errors == 0);
}

static void directed_retarget(void)
{
    DECLARE_CSTL_ARRAY(a);
    DECLARE_CSTL_ARRAY(s);
    long double ext[9];
    void * p;
    int i;

    /* re-allocate an object that is a slice with a non-zero offset */
    cstl_array_alloc(&a, 16, 8);
    cstl_array_slice(&a, 9, 14, &s);
    cstl_array_alloc(&s, 3, sizeof(long double));
    CHECK(cstl_array_size(&s) == 3);
    CHECK(cstl_array_at(&s, 0) == cstl_array_data(&s));
    CHECK((char *)cstl_array_at(&s, 2)
          == (char *)cstl_array_data(&s) + 2 * sizeof(long double));
    CHECK(blk_containing(cstl_array_data(&s), 3 * sizeof(long double)));
    must_abort_at(&s, 3);
    must_abort_slice(&s, 0, 4, &s);
    CHECK(cstl_array_size(&a) == 16);
    CHECK(cstl_array_at(&a, 15) == (char *)cstl_array_data(&a) + 15 * 8);

    /* re-target an object that is a slice with a non-zero offset */
    cstl_array_slice(&a, 12, 16, &s);
    CHECK(cstl_array_at(&s, 0) == cstl_array_at(&a, 12));
    cstl_array_set(&s, ext, 9, sizeof(ext[0]));
    CHECK(cstl_array_size(&s) == 9);
    for (i = 0; i < 9; i++) {
        CHECK(cstl_array_at(&s, i) == (void *)&ext[i]);
    }
    must_abort_at(&s, 9);
    must_abort_slice(&s, 0, 10, &a);

    /* the same, in place, then release through the only remaining view */
    cstl_array_slice(&s, 4, 9, &s);
    CHECK(cstl_array_at(&s, 0) == (void *)&ext[4]);
    cstl_array_slice(&s, 1, 5, &a);                 /* drops a's buffer */
    CHECK(cstl_array_at(&a, 0) == (void *)&ext[5]);
    CHECK(cstl_array_at(&a, 3) == (void *)&ext[8]);
    must_abort_at(&a, 4);
    must_abort_slice(&a, 0, 5, &a);

    p = &p;
    cstl_array_release(&s, &p);                     /* two users */
    CHECK(p == NULL);
    CHECK(cstl_array_size(&s) == 5 && cstl_array_size(&a) == 4);
    CHECK(cstl_array_at(&s, 0) == (void *)&ext[4]);
    cstl_array_release(&a, NULL);
    CHECK(cstl_array_size(&a) == 4);
    cstl_array_reset(&s);
    p = &p;
    cstl_array_release(&a, &p);                     /* sole user */
    CHECK(p == (void *)ext);
    CHECK(cstl_array_size(&a) == 0 && cstl_array_data(&a) == NULL);
    must_abort_at(&a, 0);
    p = &p;
    cstl_array_release(&a, &p);                     /* empty object */
    CHECK(p == NULL);
    cstl_array_release(&a, NULL);
    CHECK(nlive == 0 && heap_errors == 0);

    /* release never hands out memory the library allocated */
    cstl_array_alloc(&a, 4, 4);
    p = &p;
    cstl_array_release(&a, &p);
    CHECK(p == NULL && cstl_array_size(&a) == 4);
    cstl_array_alloc(&a, 0, 4);
    CHECK(cstl_array_data(&a) != NULL && cstl_array_size(&a) == 0);
    p = &p;
    cstl_array_release(&a, &p);
    CHECK(p == NULL && cstl_array_data(&a) != NULL);
    must_abort_at(&a, 0);
    must_abort_slice(&a, 0, 1, &s);
    cstl_array_slice(&a, 0, 0, &s);
    cstl_array_reset(&a);
    cstl_array_reset(&s);
    CHECK(nlive == 0 && heap_errors == 0);

    /* release with a NULL out parameter still lets go */
    cstl_array_set(&a, ext, 9, sizeof(ext[0]));
    CHECK(nlive > 0);
    cstl_array_release(&a, NULL);
    CHECK(cstl_array_size(&a) == 0 && nlive == 0);
}

static void directed_failures(void)
{
    DECLARE_CSTL_ARRAY(a);
    DECLARE_CSTL_ARRAY(s);
    int ext[4];
    int k, state;

    for (state = 0; state < 4; state++) {
        for (k = 1; k <= 5; k++) {
            int mode;
            for (mode = 0; mode < 2; mode++) {
                /* bring a into the wanted state */
                cstl_array_reset(&a);
                cstl_array_reset(&s);
                if (state == 1) {
                    cstl_array_alloc(&a, 8, 4);
                } else if (state == 2) {
                    cstl_array_alloc(&s, 8, 4);
                    cstl_array_slice(&s, 3, 6, &a);
                } else if (state == 3) {
                    cstl_array_set(&s, ext, 4, sizeof(int));
                    cstl_array_slice(&s, 2, 4, &a);
                }

                fail_fired = 0;
                fail_countdown = k;
                if (mode == 0) {
                    cstl_array_alloc(&a, 5, 16);
                } else {
                    cstl_array_set(&a, ext, 4, sizeof(int));
                }
                fail_countdown = 0;

                if (fail_fired) {
                    CHECK(cstl_array_size(&a) == 0);
                    CHECK(cstl_array_data(&a) == NULL);
                    must_abort_at(&a, 0);
                    must_abort_slice(&a, 0, 0, &a);
                } else if (mode == 0) {
                    CHECK(cstl_array_size(&a) == 5);
                    CHECK(cstl_array_at(&a, 0) == cstl_array_data(&a));
                    CHECK(blk_containing(cstl_array_data(&a), 80) != NULL);
                } else {
                    CHECK(cstl_array_size(&a) == 4);
                    CHECK(cstl_array_at(&a, 0) == (void *)ext);
                }
                /* the other view is unharmed */
                if (state == 2) {
                    CHECK(cstl_array_size(&s) == 8);
                    CHECK(blk_containing(cstl_array_at(&s, 0), 32) != NULL);
                } else if (state == 3 && mode == 0) {
                    void * p = NULL;
                    CHECK(cstl_array_at(&s, 3) == (void *)&ext[3]);
                    cstl_array_release(&s, &p);
                    CHECK(p == (void *)ext);
                }
                cstl_array_reset(&a);
                cstl_array_reset(&s);
                if (nlive != 0 || heap_errors != 0) {
                    FAIL("leak or bad free after failure injection "
                         "(state %d, k %d, mode %d): %d blocks",
                         state, k, mode, nlive);
                }
            }
        }
    }
}

/* the smart pointers under the array, and callbacks using other objects */
static cstl_array_t cb_victim = CSTL_ARRAY_INITIALIZER(cb_victim);
static int cb_calls;
static void cb_clear(void * mem, void * priv)
{
    DECLARE_CSTL_ARRAY(tmp);
    (void)mem; (void)priv;
    cb_calls++;
    /* use other array objects from inside the callback */
    cstl_array_slice(&cb_victim, 1, 3, &tmp);
    CHECK(cstl_array_at(&tmp, 1) == cstl_array_at(&cb_victim, 2));
    cstl_array_reset(&cb_victim);
    CHECK(*(char *)cstl_array_at(&tmp, 0) == 'b');
    cstl_array_reset(&tmp);
}

static void directed_pointers(void)
{
    DECLARE_CSTL_SHARED_PTR(p1);
    DECLARE_CSTL_SHARED_PTR(p2);
    DECLARE_CSTL_SHARED_PTR(p3);
    DECLARE_CSTL_WEAK_PTR(w1);
    DECLARE_CSTL_WEAK_PTR(w2);
    void * m;
    int i;

    cstl_array_alloc(&cb_victim, 4, 1);
    memcpy(cstl_array_data(&cb_victim), "abcd", 4);

    CHECK(cstl_shared_ptr_unique(&p1));
    cstl_shared_ptr_alloc(&p1, 64, cb_clear);
    m = cstl_shared_ptr_get(&p1);
    CHECK(m != NULL && blk_containing(m, 64) != NULL);
    CHECK(cstl_shared_ptr_unique(&p1));

    cstl_shared_ptr_share(&p1, &p2);
    CHECK(!cstl_shared_ptr_unique(&p1) && !cstl_shared_ptr_unique(&p2));
    /* sharing again between objects that already share: nothing moves */
    for (i = 0; i < 5; i++) {
        cstl_shared_ptr_share(&p1, &p2);
        cstl_shared_ptr_share(&p2, &p1);
        CHECK(cstl_shared_ptr_get(&p1) == m && cstl_shared_ptr_get(&p2) == m);
        CHECK(cb_calls == 0);
    }
    cstl_shared_ptr_share(&p2, &p3);
    cstl_shared_ptr_share(&p1, &p3);
    cstl_shared_ptr_reset(&p3);
    CHECK(cstl_shared_ptr_get(&p3) == NULL);
    cstl_shared_ptr_reset(&p1);
    CHECK(cstl_shared_ptr_get(&p1) == NULL);
    CHECK(cstl_shared_ptr_unique(&p2));
    CHECK(cstl_shared_ptr_get(&p2) == m && blk_containing(m, 64) != NULL);

    cstl_weak_ptr_from(&w1, &p2);
    cstl_weak_ptr_from(&w1, &p2);
    cstl_weak_ptr_from(&w2, &p2);
    CHECK(!cstl_shared_ptr_unique(&p2));
    cstl_weak_ptr_reset(&w2);
    cstl_weak_ptr_lock(&w1, &p1);
    CHECK(cstl_shared_ptr_get(&p1) == m);
    cstl_weak_ptr_lock(&w1, &p1);
    CHECK(cstl_shared_ptr_get(&p1) == m);
    cstl_shared_ptr_share(&p1, &p2);
    cstl_shared_ptr_reset(&p2);
    CHECK(cb_calls == 0 && blk_containing(m, 64) != NULL);
    cstl_shared_ptr_reset(&p1);                     /* last owner */
    CHECK(cb_calls == 1);
    CHECK(cstl_array_size(&cb_victim) == 0);
    cstl_weak_ptr_lock(&w1, &p1);
    CHECK(cstl_shared_ptr_get(&p1) == NULL);
    cstl_weak_ptr_from(&w2, &p1);
    cstl_weak_ptr_reset(&w1);
    cstl_weak_ptr_reset(&w2);
    CHECK(nlive == 0 && heap_errors == 0);

    /* sharing from an empty pointer empties the target */
    cstl_shared_ptr_alloc(&p1, 8, NULL);
    cstl_shared_ptr_share(&p3, &p1);
    CHECK(cstl_shared_ptr_get(&p1) == NULL);
    cstl_shared_ptr_share(&p3, &p1);
    CHECK(nlive == 0 && heap_errors == 0);
}

/* many views of many types on few buffers */
static void directed_fan(void)
{
    enum { N = 40 };
    cstl_array_t v[N];
    DECLARE_CSTL_ARRAY(d);
    DECLARE_CSTL_ARRAY(c);
    int i;

    cstl_array_alloc(&d, N, sizeof(double));
    cstl_array_alloc(&c, 3 * N, 3);
    for (i = 0; i < N; i++) {
        cstl_array_init(&v[i]);
        *(double *)cstl_array_at(&d, i) = i + 0.5;
    }
    for (i = 0; i < N; i++) {
        if (i & 1) {
            cstl_array_slice(&d, i, N, &v[i]);
        } else {
            cstl_array_slice(&c, 3 * i, 3 * i + 3, &v[i]);
        }
    }
    cstl_array_reset(&d);
    cstl_array_reset(&c);
    for (i = 0; i < N; i++) {
        if (i & 1) {
            CHECK(cstl_array_size(&v[i]) == (size_t)(N - i));
            CHECK(*(double *)cstl_array_at(&v[i], 0) == i + 0.5);
            must_abort_slice(&v[i], 0, N - i + 1, &d);
        } else {
            CHECK(cstl_array_size(&v[i]) == 3);
            CHECK((char *)cstl_array_at(&v[i], 2)
                  == (char *)cstl_array_data(&v[i]) + (3 * i + 2) * 3);
        }
    }
    /* re-slice every view from its neighbour of the same buffer */
    for (i = 2; i < N; i++) {
        cstl_array_slice(&v[i - 2], 0, 1, &v[i]);
        cstl_array_unslice(&v[i], &v[i]);
        CHECK(cstl_array_size(&v[i]) == (size_t)((i & 1) ? N : 3 * N));
    }
    for (i = 0; i < N; i++) {
        CHECK(nlive > 0);
        cstl_array_reset(&v[i]);
    }
    CHECK(nlive == 0 && heap_errors == 0);
}

int main(void)
{
    int i, h;

    O[0] = &sobj0;
    O[1] = &sobj1;
    O[2] = &sobjs[0];
    O[3] = &sobjs[1];
    for (i = 4; i < NOBJ; i++) {
        O[i] = &dobjs[i];
        cstl_array_init(O[i]);
    }
    for (i = 0; i < NOBJ; i++) {
        M[i].buf = -1;
    }

    directed_basic();
    directed_retarget();
    directed_failures();
    directed_pointers();
    directed_fan();

    for (h = 0; h < 160; h++) {
        rng_state = 0x9e3779b97f4a7c15ull * (uint64_t)(h + 1) + TEST_SEED;
        history(40 + (h % 7) * 25);
    }

    if (heap_errors != 0 || nlive != 0) {
        FAIL("heap errors %lu, live blocks %d", heap_errors, nlive);
    }
    printf("C14 ok\n");
    return 0;
}
