/*
 * C01: ordered trees hold exactly the inserted-minus-erased multiset, in order.
 *
 * Standalone test, public API only (cstl/bintree.h, cstl/rbtree.h).  A model
 * multiset is kept next to every tree and the tree is compared against the
 * model through size / find / erase / clear / foreach only.  Nothing is
 * assumed about the shape of the tree, about which of several equal elements
 * is found or erased, about the number or order of comparisons, or about the
 * contents or the layout of the private structures.
 */

#include <stdio.h>
#include <stdlib.h>
#include <string.h>
#include <stddef.h>
#include <stdint.h>

#include "cstl/bintree.h"
#include "cstl/rbtree.h"

static const char * g_where = "";
static unsigned long g_checks;

#define CHECK(c)                                                        \
    do {                                                                \
        g_checks++;                                                     \
        if (!(c)) {                                                     \
            fprintf(stderr, "%s:%d: CHECK failed: %s [%s]\n",           \
                    __FILE__, __LINE__, #c, g_where);                   \
            exit(1);                                                    \
        }                                                               \
    } while (0)

/* ------------------------------------------------------------------ */
/* deterministic prng                                                  */

static uint64_t g_rng = 88172645463325252ull;
static void rnd_seed(uint64_t s)
{
    g_rng = s * 2654435761ull + 88172645463325252ull;
    if (g_rng == 0) {
        g_rng = 1;
    }
}
static uint32_t rnd(void)
{
    g_rng ^= g_rng << 13;
    g_rng ^= g_rng >> 7;
    g_rng ^= g_rng << 17;
    return (uint32_t)(g_rng >> 16);
}

/* ------------------------------------------------------------------ */
/* four element types: node at different offsets, two per tree flavour  */

struct ba { long pad[3]; struct cstl_bintree_node n; int key; int id; };
struct bb { int id; int key; struct cstl_bintree_node n; };
struct ra { int key; struct cstl_rbtree_node n; int id; };
struct rb { struct cstl_rbtree_node n; double d; int id; int key; };

union tree
{
    struct cstl_bintree b;
    struct cstl_rbtree r;
};

struct kind
{
    const char * name;
    int rb;
    size_t esz, koff, ioff, noff;
};

static const struct kind K_BA = {
    "bintree/ba", 0, sizeof(struct ba),
    offsetof(struct ba, key), offsetof(struct ba, id), offsetof(struct ba, n)
};
static const struct kind K_BB = {
    "bintree/bb", 0, sizeof(struct bb),
    offsetof(struct bb, key), offsetof(struct bb, id), offsetof(struct bb, n)
};
static const struct kind K_RA = {
    "rbtree/ra", 1, sizeof(struct ra),
    offsetof(struct ra, key), offsetof(struct ra, id), offsetof(struct ra, n)
};
static const struct kind K_RB = {
    "rbtree/rb", 1, sizeof(struct rb),
    offsetof(struct rb, key), offsetof(struct rb, id), offsetof(struct rb, n)
};

static int get_int(const void * const e, const size_t off)
{
    int v;
    memcpy(&v, (const char *)e + off, sizeof(v));
    return v;
}
static void set_int(void * const e, const size_t off, const int v)
{
    memcpy((char *)e + off, &v, sizeof(v));
}

/* ------------------------------------------------------------------ */
/* comparison functions                                                 */

struct cmpctx
{
    size_t koff;
    unsigned long ncalls;
};

static int cmp_plain(const void * const a, const void * const b, void * const p)
{
    struct cmpctx * const cc = p;
    const int ka = get_int(a, cc->koff), kb = get_int(b, cc->koff);
    cc->ncalls++;
    /* deliberately not -1/0/1 */
    return ka < kb ? -7 : (ka > kb ? 3 : 0);
}

/*
 * a comparison function that itself uses ANOTHER container object of a
 * different element type (a statically initialised red-black tree)
 */
static struct cmpctx g_other_ctx = { offsetof(struct ra, key), 0 };
static DECLARE_CSTL_RBTREE(g_other, struct ra, n, cmp_plain, &g_other_ctx);
#define N_OTHER 16
static struct ra g_other_elems[N_OTHER];
static unsigned long g_nested_calls;

static void other_setup(void)
{
    int i;
    for (i = 0; i < N_OTHER; i++) {
        g_other_elems[i].key = (i * 7) % N_OTHER;
        g_other_elems[i].id = i;
        cstl_rbtree_insert(&g_other, &g_other_elems[i], NULL);
    }
}

static int other_visit(const void * const e,
                       const cstl_bintree_visit_order_t ord, void * const p)
{
    if (ord == CSTL_BINTREE_VISIT_ORDER_MID
        || ord == CSTL_BINTREE_VISIT_ORDER_LEAF) {
        int * const next = p;
        CHECK(((const struct ra *)e)->key == *next);
        (*next)++;
    }
    return 0;
}

static void other_verify(void)
{
    int next = 0;
    CHECK(cstl_rbtree_size(&g_other) == N_OTHER);
    CHECK(cstl_rbtree_foreach(&g_other, other_visit, &next,
                              CSTL_BINTREE_FOREACH_DIR_FWD) == 0);
    CHECK(next == N_OTHER);
}

static int cmp_nested(const void * const a, const void * const b, void * const p)
{
    struct ra probe;
    const struct ra * f;

    g_nested_calls++;
    memset(&probe, 0x3c, sizeof(probe));
    probe.key = (int)(g_nested_calls % (N_OTHER + 2)) - 1;
    f = cstl_rbtree_find(&g_other, &probe, NULL);
    CHECK((f != NULL) == (probe.key >= 0 && probe.key < N_OTHER));
    if (f != NULL && g_nested_calls % 31 == 0) {
        struct ra * const x = cstl_rbtree_erase(&g_other, &probe);
        CHECK(x == f);
        CHECK(cstl_rbtree_size(&g_other) == N_OTHER - 1);
        cstl_rbtree_insert(&g_other, x, NULL);
    }
    return cmp_plain(a, b, p);
}

/* ------------------------------------------------------------------ */
/* a tree plus its model                                                */

struct T
{
    const struct kind * k;
    void * u;           /* the tree object in use */
    union tree own;
    struct cmpctx cc;

    char * pool;        /* cap elements of k->esz bytes */
    char * probe;       /* one element, never inserted */
    int cap;
    int nalloc;         /* ids 0..nalloc-1 have been handed out */
    int * freeids;
    int nfree;
    unsigned char * held;
    int nheld;

    int kmin, kmax;     /* keys are in [kmin, kmax] */
    int * cnt;          /* cnt[key - kmin] */

    /* traversal scratch */
    int * ev_id;
    unsigned char * ev_ord;
    int * ev0_id;
    unsigned char * ev0_ord;
    int nev, evcap;
    unsigned char * st;
    int stop_at, stop_val;
};

static void * elem(const struct T * const t, const int id)
{
    return t->pool + (size_t)id * t->k->esz;
}

static int elem_id(const struct T * const t, const void * const e)
{
    const char * const c = e;
    size_t d;
    int id;

    CHECK(e != NULL);
    CHECK(c >= t->pool && c < t->pool + (size_t)t->cap * t->k->esz);
    d = (size_t)(c - t->pool);
    CHECK(d % t->k->esz == 0);
    id = (int)(d / t->k->esz);
    CHECK(id < t->nalloc);
    CHECK(get_int(e, t->k->ioff) == id);
    return id;
}

static void T_tree_init(struct T * const t, cstl_compare_func_t * const cmp)
{
    t->u = &t->own;
    /* the init function must not depend on what the memory held before */
    memset(&t->own, (int)(rnd() & 0xff), sizeof(t->own));
    if (t->k->rb) {
        cstl_rbtree_init(&t->own.r, cmp, &t->cc, t->k->noff);
    } else {
        cstl_bintree_init(&t->own.b, cmp, &t->cc, t->k->noff);
    }
}

static void T_model_reset(struct T * const t)
{
    t->nalloc = 0;
    t->nfree = 0;
    t->nheld = 0;
    memset(t->held, 0, (size_t)t->cap);
    memset(t->cnt, 0, sizeof(int) * (size_t)(t->kmax - t->kmin + 1));
}

static void T_create(struct T * const t, const struct kind * const k,
                     const int cap, const int kmin, const int kmax,
                     cstl_compare_func_t * const cmp)
{
    memset(t, 0, sizeof(*t));
    t->k = k;
    t->cc.koff = k->koff;
    t->cap = cap;
    t->pool = malloc((size_t)cap * k->esz);
    t->probe = malloc(k->esz);
    t->freeids = malloc(sizeof(int) * (size_t)cap);
    t->held = malloc((size_t)cap);
    t->kmin = kmin;
    t->kmax = kmax;
    t->cnt = malloc(sizeof(int) * (size_t)(kmax - kmin + 1));
    t->evcap = 3 * cap + 4;
    t->ev_id = malloc(sizeof(int) * (size_t)t->evcap);
    t->ev_ord = malloc((size_t)t->evcap);
    t->ev0_id = malloc(sizeof(int) * (size_t)t->evcap);
    t->ev0_ord = malloc((size_t)t->evcap);
    t->st = malloc((size_t)cap);
    CHECK(t->pool && t->probe && t->freeids && t->held && t->cnt
          && t->ev_id && t->ev_ord && t->ev0_id && t->ev0_ord && t->st);
    memset(t->probe, 0x77, k->esz);
    T_model_reset(t);
    T_tree_init(t, cmp);
}

static void T_destroy(struct T * const t)
{
    free(t->pool);
    free(t->probe);
    free(t->freeids);
    free(t->held);
    free(t->cnt);
    free(t->ev_id);
    free(t->ev_ord);
    free(t->ev0_id);
    free(t->ev0_ord);
    free(t->st);
}

/* --- thin wrappers over the two public APIs --- */

static size_t t_size(const struct T * const t)
{
    return t->k->rb ? cstl_rbtree_size((struct cstl_rbtree *)t->u) : cstl_bintree_size((struct cstl_bintree *)t->u);
}
static void t_insert(struct T * const t, void * const e, void * const hint)
{
    if (t->k->rb) {
        cstl_rbtree_insert((struct cstl_rbtree *)t->u, e, hint);
    } else {
        cstl_bintree_insert((struct cstl_bintree *)t->u, e, hint);
    }
}
static const void * t_find(const struct T * const t, const void * const e,
                           const void ** const par)
{
    return t->k->rb
        ? cstl_rbtree_find((struct cstl_rbtree *)t->u, e, par)
        : cstl_bintree_find((struct cstl_bintree *)t->u, e, par);
}
static void * t_erase(struct T * const t, const void * const e)
{
    return t->k->rb
        ? cstl_rbtree_erase((struct cstl_rbtree *)t->u, e) : cstl_bintree_erase((struct cstl_bintree *)t->u, e);
}
static void t_clear(struct T * const t, cstl_xtor_func_t * const clr,
                    void * const priv)
{
    if (t->k->rb) {
        cstl_rbtree_clear((struct cstl_rbtree *)t->u, clr, priv);
    } else {
        cstl_bintree_clear((struct cstl_bintree *)t->u, clr, priv);
    }
}
static int t_foreach(const struct T * const t,
                     cstl_bintree_const_visit_func_t * const v,
                     void * const priv, const cstl_bintree_foreach_dir_t dir)
{
    return t->k->rb
        ? cstl_rbtree_foreach((struct cstl_rbtree *)t->u, v, priv, dir)
        : cstl_bintree_foreach((struct cstl_bintree *)t->u, v, priv, dir);
}

/* --- model-checked operations --- */

static const void * probe_for(struct T * const t, const int key)
{
    set_int(t->probe, t->k->koff, key);
    set_int(t->probe, t->k->ioff, -1);
    return t->probe;
}

static int * cnt_of(struct T * const t, const int key)
{
    CHECK(key >= t->kmin && key <= t->kmax);
    return &t->cnt[key - t->kmin];
}

static void check_find_key(struct T * const t, const int key, const int inrange)
{
    const void * par = (const void *)&g_where; /* garbage */
    const void * const f = t_find(t, probe_for(t, key), &par);
    const void * const f2 = t_find(t, probe_for(t, key), NULL);
    const int want = inrange ? *cnt_of(t, key) > 0 : 0;

    CHECK((f != NULL) == want);
    CHECK((f2 != NULL) == want);
    if (f != NULL) {
        const int id = elem_id(t, f);
        CHECK(t->held[id]);
        CHECK(get_int(f, t->k->koff) == key);
    }
    if (f2 != NULL) {
        const int id = elem_id(t, f2);
        CHECK(t->held[id]);
        CHECK(get_int(f2, t->k->koff) == key);
    }
    if (t->nheld == 0) {
        CHECK(par == NULL);
    } else if (par != NULL) {
        /* the parent (or would-be parent) is an element of the tree */
        CHECK(t->held[elem_id(t, par)]);
    }
    if (f == NULL && t->nheld > 0) {
        /* somewhere to hang it from */
        CHECK(par != NULL);
    }
}

static void do_insert(struct T * const t, const int key, const int hinted)
{
    int id;
    void * e;

    if (t->nfree > 0 && (rnd() & 1)) {
        id = t->freeids[--t->nfree];
    } else if (t->nalloc < t->cap) {
        id = t->nalloc++;
    } else {
        CHECK(t->nfree > 0);
        id = t->freeids[--t->nfree];
    }
    e = elem(t, id);
    CHECK(!t->held[id]);
    if (rnd() & 1) {
        /* whatever the node held before must not matter */
        memset(e, (int)(rnd() & 0xff), t->k->esz);
    }
    set_int(e, t->k->koff, key);
    set_int(e, t->k->ioff, id);

    if (hinted) {
        const void * par = (const void *)&g_where;
        const void * const f = t_find(t, e, &par);
        CHECK((f != NULL) == (*cnt_of(t, key) > 0));
        if (par != NULL) {
            CHECK(t->held[elem_id(t, par)]);
        }
        t_insert(t, e, (void *)par);
    } else {
        t_insert(t, e, NULL);
    }

    t->held[id] = 1;
    t->nheld++;
    (*cnt_of(t, key))++;
    CHECK(t_size(t) == (size_t)t->nheld);
}

static void do_erase(struct T * const t, const int key, const int inrange)
{
    void * const p = t_erase(t, probe_for(t, key));

    if (!inrange || *cnt_of(t, key) == 0) {
        CHECK(p == NULL);
    } else {
        const int id = elem_id(t, p);
        CHECK(t->held[id]);
        CHECK(get_int(p, t->k->koff) == key);
        t->held[id] = 0;
        t->nheld--;
        (*cnt_of(t, key))--;
        t->freeids[t->nfree++] = id;
    }
    CHECK(t_size(t) == (size_t)t->nheld);
}

struct clrctx
{
    struct T * t;
    int n;
};

static void clr_cb(void * const e, void * const p)
{
    struct clrctx * const c = p;
    struct T * const t = c->t;
    const int id = elem_id(t, e);
    const int key = get_int(e, t->k->koff);

    CHECK(t->held[id]);
    t->held[id] = 0;
    (*cnt_of(t, key))--;
    t->freeids[t->nfree++] = id;
    c->n++;
    /* the callee owns the element now: scribble over it, node included */
    memset(e, 0xEE, t->k->esz);
    set_int(e, t->k->ioff, id);
}

static int count_visit(const void * const e,
                       const cstl_bintree_visit_order_t ord, void * const p)
{
    (void)e;
    (void)ord;
    (*(int *)p)++;
    return 0;
}

static void do_clear(struct T * const t)
{
    struct clrctx c;
    int i, n = 0;

    c.t = t;
    c.n = 0;
    t_clear(t, clr_cb, &c);
    CHECK(c.n == t->nheld);
    t->nheld = 0;
    CHECK(t_size(t) == 0);
    for (i = 0; i <= t->kmax - t->kmin; i++) {
        CHECK(t->cnt[i] == 0);
    }
    CHECK(t_foreach(t, count_visit, &n, CSTL_BINTREE_FOREACH_DIR_FWD) == 0);
    CHECK(t_foreach(t, count_visit, &n, CSTL_BINTREE_FOREACH_DIR_REV) == 0);
    CHECK(n == 0);
}

/* --- traversal checks --- */

static int rec_visit(const void * const e,
                     const cstl_bintree_visit_order_t ord, void * const p)
{
    struct T * const t = p;
    const int id = elem_id(t, e);

    CHECK(t->held[id]);
    CHECK(t->nev < t->evcap);
    t->ev_id[t->nev] = id;
    t->ev_ord[t->nev] = (unsigned char)ord;
    t->nev++;
    if (t->stop_at != 0 && t->nev == t->stop_at) {
        return t->stop_val;
    }
    CHECK(t->stop_at == 0 || t->nev < t->stop_at);
    return 0;
}

static void check_traversal(struct T * const t,
                            const cstl_bintree_foreach_dir_t dir,
                            const int stops)
{
    int i, nmid = 0, have_prev = 0, prev = 0, res, total;

    t->nev = 0;
    t->stop_at = 0;
    res = t_foreach(t, rec_visit, t, dir);
    CHECK(res == 0);

    memset(t->st, 0, (size_t)t->nalloc);
    for (i = 0; i < t->nev; i++) {
        const int id = t->ev_id[i];
        const int key = get_int(elem(t, id), t->k->koff);
        int mid = 0;

        switch ((cstl_bintree_visit_order_t)t->ev_ord[i]) {
        case CSTL_BINTREE_VISIT_ORDER_PRE:
            CHECK(t->st[id] == 0);
            t->st[id] = 1;
            break;
        case CSTL_BINTREE_VISIT_ORDER_MID:
            CHECK(t->st[id] == 1);
            t->st[id] = 2;
            mid = 1;
            break;
        case CSTL_BINTREE_VISIT_ORDER_POST:
            CHECK(t->st[id] == 2);
            t->st[id] = 3;
            break;
        case CSTL_BINTREE_VISIT_ORDER_LEAF:
            CHECK(t->st[id] == 0);
            t->st[id] = 3;
            mid = 1;
            break;
        default:
            CHECK(0);
        }

        if (mid) {
            nmid++;
            if (have_prev) {
                if (dir == CSTL_BINTREE_FOREACH_DIR_FWD) {
                    CHECK(prev <= key);
                } else {
                    CHECK(prev >= key);
                }
            }
            have_prev = 1;
            prev = key;
        }
    }
    CHECK(nmid == t->nheld);
    for (i = 0; i < t->nalloc; i++) {
        CHECK(t->st[i] == (t->held[i] ? 3 : 0));
    }
    CHECK(t->nev >= t->nheld && t->nev <= 3 * t->nheld);

    if (stops == 0 || t->nev == 0) {
        return;
    }

    /* early stop: at, and with, the first non-zero visit result */
    total = t->nev;
    memcpy(t->ev0_id, t->ev_id, sizeof(int) * (size_t)total);
    memcpy(t->ev0_ord, t->ev_ord, (size_t)total);
    for (i = 0; i < stops; i++) {
        int at;
        if (stops >= total) {
            if (i >= total) {
                break;
            }
            at = i + 1;
        } else if (i == 0) {
            at = 1;
        } else if (i == 1) {
            at = total;
        } else {
            at = 1 + (int)(rnd() % (unsigned)total);
        }
        t->nev = 0;
        t->stop_at = at;
        t->stop_val = (i & 1) ? -(at + 5) : (at + 1000);
        res = t_foreach(t, rec_visit, t, dir);
        CHECK(res == t->stop_val);
        CHECK(t->nev == at);
        CHECK(memcmp(t->ev0_id, t->ev_id, sizeof(int) * (size_t)at) == 0);
        CHECK(memcmp(t->ev0_ord, t->ev_ord, (size_t)at) == 0);
    }
    t->stop_at = 0;
}

/* level 0: cheap, level 1: everything */
static void check_all(struct T * const t, const int level)
{
    CHECK(t_size(t) == (size_t)t->nheld);

    if (level == 0) {
        const int key = t->kmin + (int)(rnd() % (unsigned)(t->kmax - t->kmin + 1));
        check_find_key(t, key, 1);
        return;
    }

    if (t->kmax - t->kmin <= 64) {
        int key;
        for (key = t->kmin; key <= t->kmax; key++) {
            check_find_key(t, key, 1);
        }
    } else {
        int i;
        for (i = 0; i < 24; i++) {
            check_find_key(
                t, t->kmin + (int)(rnd() % (unsigned)(t->kmax - t->kmin + 1)), 1);
        }
        /* every held element can be found by its own key */
        for (i = 0; i < t->nalloc; i += 1 + t->nalloc / 64) {
            if (t->held[i]) {
                check_find_key(t, get_int(elem(t, i), t->k->koff), 1);
            }
        }
    }
    /* boundary probes outside everything ever inserted */
    check_find_key(t, t->kmin - 1, 0);
    check_find_key(t, t->kmax + 1, 0);
    check_find_key(t, INT32_MIN, 0);
    check_find_key(t, INT32_MAX, 0);

    check_traversal(t, CSTL_BINTREE_FOREACH_DIR_FWD, t->nheld <= 8 ? 64 : 6);
    check_traversal(t, CSTL_BINTREE_FOREACH_DIR_REV, t->nheld <= 8 ? 64 : 6);
}

/* only the in-order claim, one direction */
static void check_order_only(struct T * const t,
                             const cstl_bintree_foreach_dir_t dir)
{
    CHECK(t_size(t) == (size_t)t->nheld);
    check_traversal(t, dir, 0);
}

/* ------------------------------------------------------------------ */
/* 1. exhaustive: every operation sequence within a small scope         */

struct exh
{
    struct T t;
    int nkeys, hinted, clear, maxdepth;
    int nops;
    int ops[16];
    unsigned long nseq;
};

static void exh_apply(struct exh * const x, const int op)
{
    const int nk = x->nkeys;
    if (op < nk) {
        do_insert(&x->t, op, 0);
    } else if (x->hinted && op < 2 * nk) {
        do_insert(&x->t, op - nk, 1);
    } else if (op < (x->hinted ? 3 : 2) * nk) {
        do_erase(&x->t, op - (x->hinted ? 2 : 1) * nk, 1);
    } else {
        do_clear(&x->t);
    }
}

static void exh_run(struct exh * const x, const int depth)
{
    int i;

    T_model_reset(&x->t);
    T_tree_init(&x->t, cmp_plain);
    for (i = 0; i < depth; i++) {
        exh_apply(x, x->ops[i]);
    }
    check_all(&x->t, 1);
    x->nseq++;
}

static void exh_rec(struct exh * const x, const int depth)
{
    int op;

    exh_run(x, depth);
    if (depth == x->maxdepth) {
        return;
    }
    for (op = 0; op < x->nops; op++) {
        x->ops[depth] = op;
        exh_rec(x, depth + 1);
    }
}

static void exhaustive(const struct kind * const k, const int nkeys,
                       const int hinted, const int clear, const int maxdepth)
{
    struct exh x;

    g_where = k->name;
    memset(&x, 0, sizeof(x));
    T_create(&x.t, k, maxdepth + 1, 0, nkeys - 1, cmp_plain);
    x.nkeys = nkeys;
    x.hinted = hinted;
    x.clear = clear;
    x.maxdepth = maxdepth;
    x.nops = nkeys * (hinted ? 3 : 2) + (clear ? 1 : 0);
    exh_rec(&x, 0);
    printf("  exhaustive %-11s keys=%d hinted=%d clear=%d depth=%d: %lu sequences\n",
           k->name, nkeys, hinted, clear, maxdepth, x.nseq);
    T_destroy(&x.t);
}

/* ------------------------------------------------------------------ */
/* 2. all insertion orders x all erase orders of n distinct keys        */

static int next_perm(int * const a, const int n)
{
    int i = n - 2, j, t;
    while (i >= 0 && a[i] >= a[i + 1]) {
        i--;
    }
    if (i < 0) {
        return 0;
    }
    for (j = n - 1; a[j] <= a[i]; j--)
        ;
    t = a[i]; a[i] = a[j]; a[j] = t;
    for (i++, j = n - 1; i < j; i++, j--) {
        t = a[i]; a[i] = a[j]; a[j] = t;
    }
    return 1;
}

static void perms(const struct kind * const k, const int n, const int dup,
                  const int full)
{
    struct T t;
    int ins[8], ers[8], i;
    unsigned long nseq = 0;

    g_where = k->name;
    T_create(&t, k, n, 0, n, cmp_plain);
    for (i = 0; i < n; i++) {
        ins[i] = i;
    }
    do {
        for (i = 0; i < n; i++) {
            ers[i] = i;
        }
        do {
            T_model_reset(&t);
            T_tree_init(&t, cmp_plain);
            for (i = 0; i < n; i++) {
                /* with dup: keys 0,0,1,1,2,2.. so that ties are present */
                do_insert(&t, dup ? ins[i] / 2 : ins[i], (ins[i] + i) & 1);
            }
            if (full) {
                check_all(&t, 1);
            } else {
                check_order_only(&t, CSTL_BINTREE_FOREACH_DIR_FWD);
            }
            for (i = 0; i < n; i++) {
                do_erase(&t, dup ? ers[i] / 2 : ers[i], 1);
                if (full) {
                    check_all(&t, 1);
                } else {
                    check_order_only(&t, (i & 1)
                                     ? CSTL_BINTREE_FOREACH_DIR_FWD
                                     : CSTL_BINTREE_FOREACH_DIR_REV);
                }
            }
            CHECK(t.nheld == 0);
            nseq++;
        } while (next_perm(ers, n));
    } while (next_perm(ins, n));
    printf("  permutations %-11s n=%d dup=%d: %lu histories\n",
           k->name, n, dup, nseq);
    T_destroy(&t);
}

/* ------------------------------------------------------------------ */
/* 3. long seeded random histories over several trees at once           */

static void random_histories(const unsigned seed, const int krange,
                             const int cap, const long steps,
                             cstl_compare_func_t * const cmp,
                             const int fullevery)
{
    static const struct kind * const kinds[4] = { &K_BA, &K_RB, &K_BB, &K_RA };
    struct T t[4];
    int grow[4];
    long s;
    int i;

    g_where = "random";
    rnd_seed(seed);
    for (i = 0; i < 4; i++) {
        T_create(&t[i], kinds[i], cap, -3, krange - 4, cmp);
        grow[i] = 1;
    }

    for (s = 0; s < steps; s++) {
        const int w = (int)(rnd() % 4);
        struct T * const x = &t[w];
        const unsigned r = rnd() % 1000;
        const int key = x->kmin + (int)(rnd() % (unsigned)krange);
        const unsigned pins = grow[w] ? 620 : 330;

        if (x->nheld == x->cap) {
            grow[w] = 0;
        } else if (x->nheld == 0) {
            grow[w] = 1;
        } else if (rnd() % 4096 == 0) {
            grow[w] = !grow[w];
        }

        if (r < 2) {
            do_clear(x);
            check_all(x, 1);
        } else if (r < pins && x->nheld < x->cap) {
            do_insert(x, key, (int)(rnd() & 1));
        } else if (r < 960) {
            if (x->nheld > 0 && (rnd() & 1)) {
                /* make it a hit: take the key of some held element */
                int id = (int)(rnd() % (unsigned)x->nalloc), n = 0;
                while (!x->held[id] && n++ < x->nalloc) {
                    id = (id + 1) % x->nalloc;
                }
                if (x->held[id]) {
                    do_erase(x, get_int(elem(x, id), x->k->koff), 1);
                }
            } else {
                do_erase(x, key, 1);
            }
        } else if (r < 965) {
            do_erase(x, (rnd() & 1) ? x->kmin - 1 : x->kmax + 1, 0);
        } else {
            check_find_key(x, key, 1);
        }

        if (x->nheld <= 12 || s % fullevery == 0) {
            check_all(x, 1);
        } else {
            check_all(x, 0);
        }
    }

    for (i = 0; i < 4; i++) {
        check_all(&t[i], 1);
        /* drain: half by erase, rest by clear */
        while (t[i].nheld > t[i].cap / 4) {
            int id = (int)(rnd() % (unsigned)t[i].nalloc);
            while (!t[i].held[id]) {
                id = (id + 1) % t[i].nalloc;
            }
            do_erase(&t[i], get_int(elem(&t[i], id), t[i].k->koff), 1);
        }
        check_all(&t[i], 1);
        do_clear(&t[i]);
        check_all(&t[i], 1);
        /* still usable after a clear */
        do_insert(&t[i], t[i].kmin, 1);
        do_insert(&t[i], t[i].kmax, 0);
        do_insert(&t[i], t[i].kmin, 0);
        check_all(&t[i], 1);
        T_destroy(&t[i]);
    }
    printf("  random seed=%u keys=%d cap=%d steps=%ld ok\n",
           seed, krange, cap, steps);
}

/* ------------------------------------------------------------------ */
/* 4. shaped histories: monotone runs, all-equal keys, extremes         */

static void shaped(const struct kind * const k)
{
    struct T t;
    const int n = 300;
    int i, round;

    g_where = k->name;
    T_create(&t, k, n, -n, n, cmp_plain);

    for (round = 0; round < 8; round++) {
        /* ascending / descending / zig-zag from both ends / all equal */
        for (i = 0; i < n; i++) {
            int key;
            switch (round % 4) {
            case 0: key = i; break;
            case 1: key = -i; break;
            case 2: key = (i & 1) ? n - i : i - n; break;
            default: key = 5; break;
            }
            do_insert(&t, key, round >= 4 ? 1 : (i % 3 == 0));
            if (i < 24 || i % 37 == 0) {
                check_all(&t, 1);
            }
        }
        check_all(&t, 1);

        /* erase: smallest first, largest first, middle out, by key 5 */
        for (i = 0; t.nheld > 0; i++) {
            int key = 0, id;
            /* pick an extreme or middle held key through the model only */
            int lo = t.kmax + 1, hi = t.kmin - 1;
            for (id = 0; id < t.nalloc; id++) {
                if (t.held[id]) {
                    const int kk = get_int(elem(&t, id), k->koff);
                    if (kk < lo) { lo = kk; }
                    if (kk > hi) { hi = kk; }
                }
            }
            switch ((round + i / 50) % 3) {
            case 0: key = lo; break;
            case 1: key = hi; break;
            default: key = (i & 1) ? lo : hi; break;
            }
            if (i % 7 == 3) {
                /* a miss just beyond the extremes, then keep going */
                do_erase(&t, lo - 1, lo - 1 >= t.kmin);
                do_erase(&t, hi + 1, hi + 1 <= t.kmax);
            }
            do_erase(&t, key, 1);
            if (t.nheld < 24 || i % 41 == 0) {
                check_all(&t, 1);
            }
            if (i % 11 == 0 && t.nheld < n - 2) {
                /* re-insert at the extremes while shrinking */
                do_insert(&t, lo, (int)(rnd() & 1));
                do_insert(&t, hi, (int)(rnd() & 1));
                do_erase(&t, lo, 1);
                do_erase(&t, hi, 1);
            }
        }
        check_all(&t, 1);
    }

    /* all equal: every erase hands back a different, still held element */
    for (i = 0; i < n; i++) {
        do_insert(&t, 0, i & 1);
    }
    check_all(&t, 1);
    for (i = 0; i < n; i++) {
        do_erase(&t, 0, 1);
        if (i % 29 == 0) {
            check_all(&t, 1);
        }
    }
    do_erase(&t, 0, 1);
    check_all(&t, 1);
    printf("  shaped %-11s ok\n", k->name);
    T_destroy(&t);
}

/* ------------------------------------------------------------------ */
/* 5. statically initialised trees, and swap                            */

static struct cmpctx g_sb_ctx = { offsetof(struct ba, key), 0 };
static DECLARE_CSTL_BINTREE(g_sb, struct ba, n, cmp_plain, &g_sb_ctx);
static struct cmpctx g_sr_ctx = { offsetof(struct rb, key), 0 };
static struct cstl_rbtree g_sr =
    CSTL_RBTREE_INITIALIZER(struct rb, n, cmp_plain, &g_sr_ctx);

/* the tree objects stay where they are; everything else changes hands */
static void model_swap(struct T * const a, struct T * const b)
{
    struct T tmp = *a;
#define SW(f) a->f = b->f; b->f = tmp.f
    SW(pool); SW(probe); SW(cap); SW(nalloc); SW(freeids); SW(nfree);
    SW(held); SW(nheld); SW(cnt); SW(st); SW(evcap);
    SW(ev_id); SW(ev_ord); SW(ev0_id); SW(ev0_ord);
#undef SW
}

static void statics_and_swap(void)
{
    struct T a, b;
    int i, round;

    g_where = "static/swap";

    /* the models are driven through statically initialised objects */
    T_create(&a, &K_BA, 64, 0, 9, cmp_plain);
    a.u = &g_sb;
    T_create(&b, &K_RB, 64, 0, 9, cmp_plain);
    b.u = &g_sr;
    check_all(&a, 1);
    check_all(&b, 1);
    for (i = 0; i < 400; i++) {
        struct T * const x = (rnd() & 1) ? &a : &b;
        const int key = (int)(rnd() % 10);
        if (rnd() % 5 < 3 && x->nheld < x->cap) {
            do_insert(x, key, (int)(rnd() & 1));
        } else {
            do_erase(x, key, 1);
        }
        check_all(x, 1);
    }
    do_clear(&a);
    do_clear(&b);
    check_all(&a, 1);
    check_all(&b, 1);
    T_destroy(&a);
    T_destroy(&b);

    /* swap: contents (and nothing else observable) change places */
    for (round = 0; round < 2; round++) {
        const struct kind * const k = round ? &K_RA : &K_BB;

        T_create(&a, k, 64, 0, 19, cmp_plain);
        T_create(&b, k, 64, 0, 19, cmp_plain);
        for (i = 0; i < 600; i++) {
            struct T * const x = (rnd() & 1) ? &a : &b;
            const int key = (int)(rnd() % 20);
            const unsigned r = rnd() % 16;

            if (r == 0) {
                if (k->rb) {
                    cstl_rbtree_swap(&a.own.r, &b.own.r);
                } else {
                    cstl_bintree_swap(&a.own.b, &b.own.b);
                }
                model_swap(&a, &b);
                check_all(&a, 1);
                check_all(&b, 1);
            } else if (r < 9 && x->nheld < x->cap) {
                do_insert(x, key, (int)(rnd() & 1));
            } else {
                do_erase(x, key, 1);
            }
            check_all(x, 1);
        }
        do_clear(&a);
        do_clear(&b);
        T_destroy(&a);
        T_destroy(&b);
    }
    printf("  statics and swap ok\n");
}

/* ------------------------------------------------------------------ */

int main(void)
{
    setvbuf(stdout, NULL, _IOLBF, 0);
    other_setup();
    other_verify();

    printf("C01 exhaustive small scope\n");
    exhaustive(&K_BA, 3, 1, 1, 6);
    exhaustive(&K_RA, 3, 1, 1, 6);
    exhaustive(&K_BB, 5, 0, 0, 6);
    exhaustive(&K_RB, 5, 0, 0, 6);
    exhaustive(&K_BB, 2, 1, 1, 8);
    exhaustive(&K_RB, 2, 1, 1, 8);

    printf("C01 permutations\n");
    perms(&K_BA, 5, 0, 1);
    perms(&K_RA, 5, 0, 1);
    perms(&K_BB, 6, 0, 0);
    perms(&K_RB, 6, 0, 0);
    perms(&K_BA, 6, 1, 0);
    perms(&K_RA, 6, 1, 0);

    printf("C01 shaped histories\n");
    shaped(&K_BA);
    shaped(&K_BB);
    shaped(&K_RA);
    shaped(&K_RB);

    printf("C01 statics and swap\n");
    statics_and_swap();

    printf("C01 random histories\n");
    random_histories(1, 4, 48, 60000, cmp_plain, 64);
    random_histories(2, 12, 96, 60000, cmp_nested, 128);
    random_histories(3, 60, 256, 80000, cmp_plain, 512);
    random_histories(4, 200000, 1500, 150000, cmp_plain, 4096);
    random_histories(5, 7, 1500, 100000, cmp_plain, 4096);
    random_histories(6, 1000, 300, 80000, cmp_nested, 1024);
    other_verify();

    printf("C01 ok (%lu checks)\n", g_checks);
    return 0;
}
