/*
 * C16 / b: unique/shared pointer (re)allocation under allocation failure.
 *
 * The allocator is wrapped (ld --wrap) so that any chosen subset of the
 * library's allocations fails. A script that allocates into empty and into
 * already-loaded smart pointers is run for every single failing allocation,
 * every failing suffix and every failing pair. After each *_alloc() call the
 * pointer must manage either a fresh, fully usable block or nothing; the
 * previously managed block must have been let go of exactly once (clear
 * callback called once, or still alive through the other owners); other
 * owners must be unaffected; and at the end no block may be live.
 * Nothing depends on the order of malloc/free/callback inside an operation.
 */
#include "cstl/memory.h"
#include "cstl/array.h"

#include <stdio.h>
#include <stdlib.h>
#include <string.h>

void * __real_malloc(size_t);
void * __real_realloc(void *, size_t);
void * __real_calloc(size_t, size_t);
void __real_free(void *);

#define MAXALLOC 64
static int armed;
static unsigned long nalloc;
static unsigned char failmask[MAXALLOC];
static int fail_from = -1;
static unsigned long op_failures;
static long live;

static int should_fail(void)
{
    int f = 0;
    if (armed) {
        const unsigned long k = nalloc++;
        if ((k < MAXALLOC && failmask[k])
            || (fail_from >= 0 && k >= (unsigned long)fail_from)) {
            f = 1;
            op_failures++;
        }
    }
    return f;
}

void * __wrap_malloc(size_t n)
{
    void * p;
    if (should_fail()) {
        return NULL;
    }
    p = __real_malloc(n);
    if (p != NULL) {
        live++;
    }
    return p;
}

void * __wrap_calloc(size_t a, size_t b)
{
    void * p;
    if (should_fail()) {
        return NULL;
    }
    p = __real_calloc(a, b);
    if (p != NULL) {
        live++;
    }
    return p;
}

void * __wrap_realloc(void * o, size_t n)
{
    void * p;
    if (should_fail()) {
        return NULL;
    }
    p = __real_realloc(o, n);
    if (p != NULL && o == NULL) {
        live++;
    } else if (p == NULL && o != NULL && n == 0) {
        live--;
    }
    return p;
}

void __wrap_free(void * p)
{
    if (p != NULL) {
        live--;
    }
    __real_free(p);
}

#define CHECK(X) do { if (!(X)) { \
    fprintf(stderr, "FAIL %s:%d: %s\n", __FILE__, __LINE__, #X); \
    exit(1); } } while (0)

static int cleared[4];

static void clr_cb(void * const mem, void * const priv)
{
    /* the block handed to the callback must still be intact */
    const int id = *(unsigned char *)mem;
    CHECK(id >= 1 && id <= 3);
    if (priv != NULL) {
        CHECK((int)(uintptr_t)priv == id);
    }
    cleared[id]++;
}

static void clr_shared(void * const mem, void * const priv)
{
    clr_cb(mem, priv);
}

static void unique_script(void)
{
    DECLARE_CSTL_UNIQUE_PTR(up);
    int have1, have2;

    memset(cleared, 0, sizeof(cleared));

    cstl_unique_ptr_alloc(&up, 100, clr_cb, (void *)(uintptr_t)1);
    have1 = cstl_unique_ptr_get(&up) != NULL;
    if (have1) {
        memset(cstl_unique_ptr_get(&up), 1, 100);
    }

    /* allocate over a (possibly) loaded pointer */
    op_failures = 0;
    cstl_unique_ptr_alloc(&up, 200, clr_cb, (void *)(uintptr_t)2);
    CHECK(cleared[1] == have1);
    have2 = cstl_unique_ptr_get(&up) != NULL;
    CHECK(have2 || op_failures > 0);
    if (have2) {
        memset(cstl_unique_ptr_get(&up), 2, 200);
    }

    /* a zero-size request just empties the pointer */
    op_failures = 0;
    cstl_unique_ptr_alloc(&up, 0, clr_cb, (void *)(uintptr_t)3);
    CHECK(cstl_unique_ptr_get(&up) == NULL);
    CHECK(cleared[2] == have2);

    cstl_unique_ptr_alloc(&up, 50, clr_cb, (void *)(uintptr_t)3);
    if (cstl_unique_ptr_get(&up) != NULL) {
        cstl_xtor_func_t * f;
        void * priv, * p;

        memset(cstl_unique_ptr_get(&up), 3, 50);
        p = cstl_unique_ptr_release(&up, &f, &priv);
        CHECK(f == clr_cb && priv == (void *)(uintptr_t)3);
        f(p, priv);
        free(p);
        CHECK(cleared[3] == 1);
    }
    CHECK(cstl_unique_ptr_get(&up) == NULL);

    cstl_unique_ptr_reset(&up);
    CHECK(cleared[1] == have1 && cleared[2] == have2);
}

static void shared_script(void)
{
    DECLARE_CSTL_SHARED_PTR(sp1);
    DECLARE_CSTL_SHARED_PTR(sp2);
    DECLARE_CSTL_WEAK_PTR(wp);
    int have1, have2;
    unsigned char * p1;

    memset(cleared, 0, sizeof(cleared));

    cstl_shared_ptr_alloc(&sp1, 64, clr_shared);
    p1 = cstl_shared_ptr_get(&sp1);
    have1 = p1 != NULL;
    if (have1) {
        memset(p1, 1, 64);
    }
    CHECK(cstl_shared_ptr_unique(&sp1));

    cstl_shared_ptr_share(&sp1, &sp2);
    cstl_weak_ptr_from(&wp, &sp1);
    CHECK(cstl_shared_ptr_get(&sp2) == p1);

    /* re-allocate sp1 while sp2 and wp still refer to the first block */
    op_failures = 0;
    cstl_shared_ptr_alloc(&sp1, 128, clr_shared);
    have2 = cstl_shared_ptr_get(&sp1) != NULL;
    CHECK(have2 || op_failures > 0);
    CHECK(cleared[1] == 0);
    CHECK(cstl_shared_ptr_get(&sp2) == p1);
    if (have1) {
        unsigned int i;
        CHECK(cstl_shared_ptr_get(&sp1) != p1);
        for (i = 0; i < 64; i++) {
            CHECK(p1[i] == 1);
        }
        CHECK(!cstl_shared_ptr_unique(&sp2));
    }
    if (have2) {
        memset(cstl_shared_ptr_get(&sp1), 2, 128);
        CHECK(cstl_shared_ptr_unique(&sp1));
    }

    /* re-allocate sp2: last owner of the first block */
    op_failures = 0;
    cstl_shared_ptr_alloc(&sp2, 32, clr_shared);
    CHECK(cleared[1] == have1);
    CHECK(cstl_shared_ptr_get(&sp2) != NULL || op_failures > 0);
    if (cstl_shared_ptr_get(&sp2) != NULL) {
        memset(cstl_shared_ptr_get(&sp2), 3, 32);
    }

    /* the weak pointer can no longer be locked */
    {
        DECLARE_CSTL_SHARED_PTR(sp3);
        cstl_weak_ptr_lock(&wp, &sp3);
        CHECK(cstl_shared_ptr_get(&sp3) == NULL);
        cstl_shared_ptr_reset(&sp3);
    }

    /* zero bytes: just a reset */
    cstl_shared_ptr_alloc(&sp1, 0, clr_shared);
    CHECK(cstl_shared_ptr_get(&sp1) == NULL);
    CHECK(cleared[2] == have2);

    cstl_weak_ptr_reset(&wp);
    cstl_shared_ptr_reset(&sp2);
    cstl_shared_ptr_reset(&sp1);
}

static void array_script(void)
{
    DECLARE_CSTL_ARRAY(a);
    DECLARE_CSTL_ARRAY(s);
    unsigned int i;

    op_failures = 0;
    cstl_array_alloc(&a, 10, sizeof(int));
    if (cstl_array_data(&a) == NULL) {
        CHECK(op_failures > 0);
        CHECK(cstl_array_size(&a) == 0);
    } else {
        CHECK(cstl_array_size(&a) == 10);
        for (i = 0; i < 10; i++) {
            *(int *)cstl_array_at(&a, i) = i;
        }
        cstl_array_slice(&a, 2, 6, &s);
        CHECK(cstl_array_size(&s) == 4);
    }

    /* allocate over a loaded array; the slice keeps the old memory */
    op_failures = 0;
    cstl_array_alloc(&a, 20, sizeof(int));
    if (cstl_array_data(&a) == NULL) {
        CHECK(op_failures > 0);
        CHECK(cstl_array_size(&a) == 0);
    } else {
        CHECK(cstl_array_size(&a) == 20);
        for (i = 0; i < 20; i++) {
            *(int *)cstl_array_at(&a, i) = 100 + i;
        }
    }
    for (i = 0; i < cstl_array_size(&s); i++) {
        CHECK(*(int *)cstl_array_at(&s, i) == (int)(2 + i));
    }

    cstl_array_reset(&s);
    cstl_array_reset(&a);
}

static unsigned long run(void (* const script)(void))
{
    nalloc = 0;
    armed = 1;
    script();
    armed = 0;
    CHECK(live == 0);
    return nalloc;
}

static unsigned long plans(void (* const script)(void))
{
    unsigned long n, i, j, runs = 0;

    n = run(script) + 4;
    CHECK(n > 4 && n < MAXALLOC);

    for (i = 0; i < n; i++) {
        failmask[i] = 1;
        run(script); runs++;
        for (j = i + 1; j < n; j++) {
            failmask[j] = 1;
            run(script); runs++;
            failmask[j] = 0;
        }
        failmask[i] = 0;

        fail_from = (int)i;
        run(script); runs++;
        fail_from = -1;
    }

    return runs;
}

int main(void)
{
    unsigned long runs = 0;

    runs += plans(unique_script);
    runs += plans(shared_script);
    runs += plans(array_script);

    printf("ok: %lu failure plans\n", runs);
    return 0;
}
