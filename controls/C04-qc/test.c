/*
 * C04 test: hash enumeration and clear reach every element exactly once,
 * even in the middle of an incremental rehash. PUBLIC API only.
 *
 * Tables are brought into all sorts of states (freshly resized up or down
 * or to another hash function, any number of incremental steps into the
 * rehash, with elements inserted and erased along the way), and then every
 * enumeration entry point is exercised:
 *   - cstl_hash_foreach_const (it does not modify the table, so it is also
 *     run after every single operation of every history),
 *   - cstl_hash_foreach, plain, stopped early, and with a callback that
 *     erases and scribbles over ("frees") the element being visited,
 *   - cstl_hash_clear, with a callback that takes ownership (scribbles),
 *     and without one; the table must be empty, and usable again after
 *     a fresh resize.
 *
 * Nothing here depends on the ORDER in which elements are presented, on
 * how the library walks its buckets, or on whether it allocates.
 *
 * Focus of this copy: cstl_hash_clear straight out of every stage of a grow
 * or shrink rehash, with a callback that takes the elements away and without
 * one (after the caller disposed of the elements itself), and reuse after.
 */
#include <stdio.h>
#include <stdlib.h>
#include <string.h>

#include "cstl/hash.h"

#define FAIL(...) do { fprintf(stderr, "FAIL %s:%d: ", __FILE__, __LINE__); \
        fprintf(stderr, __VA_ARGS__); fprintf(stderr, "\n"); exit(1); } while (0)
#define CHECK(c) do { if (!(c)) FAIL("%s", #c); } while (0)

struct item
{
    size_t key;
    int live;
    int seen;
    struct cstl_hash_node hn;
    size_t pad;
};

#define POOL 2048
static struct item pool[POOL];
static size_t npool;
static struct cstl_hash H;

static size_t hash_zero(const size_t k, const size_t m)
{
    (void)k;
    (void)m;
    return 0;
}
static size_t hash_rev(const size_t k, const size_t m)
{
    return (m - 1) - (k % m);
}
static cstl_hash_func_t * const funcs[] = {
    NULL, cstl_hash_div, cstl_hash_mul, hash_rev, hash_zero,
};
#define NFUNCS (sizeof(funcs) / sizeof(funcs[0]))

static size_t model_size(void)
{
    size_t i, n = 0;
    for (i = 0; i < npool; i++) {
        n += pool[i].live != 0;
    }
    return n;
}
static struct item * as_item(const void * const e)
{
    const struct item * const it = e;
    CHECK(it >= pool && it < pool + npool);
    CHECK(((const char *)it - (const char *)pool) % sizeof(*it) == 0);
    return (struct item *)it;
}
static void reset_seen(void)
{
    size_t i;
    for (i = 0; i < npool; i++) {
        pool[i].seen = 0;
    }
}
static void check_seen_all(void)
{
    size_t i;
    for (i = 0; i < npool; i++) {
        CHECK(pool[i].seen == (pool[i].live != 0));
    }
}

struct walk
{
    size_t calls, stop_at; /* stop_at == 0: never */
    int stop_val;
    unsigned int erase_mask; /* erase elements whose index & mask == 0 */
    int erase;
};

static int const_visit(const void * const e, void * const p)
{
    struct item * const it = as_item(e);
    struct walk * const w = p;

    CHECK(it->live);
    CHECK(it->seen == 0);
    it->seen = 1;
    CHECK(w->stop_at == 0 || w->calls < w->stop_at);
    w->calls++;
    return (w->calls == w->stop_at) ? w->stop_val : 0;
}

static int mut_visit(void * const e, void * const p)
{
    struct item * const it = as_item(e);
    struct walk * const w = p;

    CHECK(it->live);
    CHECK(it->seen == 0);
    it->seen = 1;
    CHECK(w->stop_at == 0 || w->calls < w->stop_at);
    w->calls++;

    if (w->erase && (((size_t)(it - pool) * 7u + 3u) & w->erase_mask) == 0) {
        /* remove the current element and "free" it */
        cstl_hash_erase(&H, it);
        it->live = 0;
        memset(&it->hn, 0xdd, sizeof(it->hn));
        it->pad = 0xdddddddd;
    }
    return (w->calls == w->stop_at) ? w->stop_val : 0;
}

static unsigned long nenum;

/* the non-modifying enumeration: usable at any time */
static void enum_const(void)
{
    struct walk w;

    nenum++;
    memset(&w, 0, sizeof(w));
    reset_seen();
    CHECK(cstl_hash_foreach_const(&H, const_visit, &w) == 0);
    CHECK(w.calls == model_size());
    check_seen_all();
    CHECK(cstl_hash_size(&H) == model_size());
}

static void enum_const_stop(const size_t salt)
{
    struct walk w;
    const size_t n = model_size();

    if (n == 0) {
        return;
    }
    memset(&w, 0, sizeof(w));
    w.stop_at = 1 + salt % n;
    w.stop_val = -3 - (int)(salt % 11);
    reset_seen();
    CHECK(cstl_hash_foreach_const(&H, const_visit, &w) == w.stop_val);
    CHECK(w.calls == w.stop_at);
}

static void enum_mut(void)
{
    struct walk w;

    memset(&w, 0, sizeof(w));
    reset_seen();
    CHECK(cstl_hash_foreach(&H, mut_visit, &w) == 0);
    CHECK(w.calls == model_size());
    check_seen_all();
}

static void enum_mut_stop(const size_t salt)
{
    struct walk w;
    const size_t n = model_size();

    if (n == 0) {
        return;
    }
    memset(&w, 0, sizeof(w));
    w.stop_at = 1 + salt % n;
    w.stop_val = 5 + (int)(salt % 13);
    reset_seen();
    CHECK(cstl_hash_foreach(&H, mut_visit, &w) == w.stop_val);
    CHECK(w.calls == w.stop_at);
}

/* every element is presented once, some of them get erased on the spot */
static void enum_mut_erase(const unsigned int mask)
{
    struct walk w;
    const size_t n = model_size();
    size_t i;

    memset(&w, 0, sizeof(w));
    w.erase = 1;
    w.erase_mask = mask;
    reset_seen();
    CHECK(cstl_hash_foreach(&H, mut_visit, &w) == 0);
    CHECK(w.calls == n);
    /* everything that was live was presented, erased or not */
    for (i = 0; i < npool; i++) {
        if (pool[i].live) {
            CHECK(pool[i].seen == 1);
        }
    }
    CHECK(cstl_hash_size(&H) == model_size());
    enum_const();
}

static size_t ncleared;
static void clear_cb(void * const e, void * const p)
{
    struct item * const it = as_item(e);
    CHECK(p == NULL);
    CHECK(it->live);
    it->live = 0;
    /* the callee owns the element now */
    memset(&it->hn, 0xcc, sizeof(it->hn));
    ncleared++;
}

static void table_init(void)
{
    npool = 0;
    cstl_hash_init(&H, offsetof(struct item, hn));
    cstl_hash_resize(&H, 2, cstl_hash_div);
}

static void op_insert(const size_t key)
{
    struct item * it;
    CHECK(npool < POOL);
    it = &pool[npool++];
    memset(it, 0x5a, sizeof(*it));
    it->key = key;
    it->seen = 0;
    cstl_hash_insert(&H, key, it);
    it->live = 1;
}

static void op_erase_key(const size_t key, const int newest)
{
    struct item * it = NULL;
    size_t i;

    for (i = 0; i < npool; i++) {
        if (pool[i].live && pool[i].key == key) {
            it = &pool[i];
            if (!newest) {
                break;
            }
        }
    }
    if (it != NULL) {
        cstl_hash_erase(&H, it);
        it->live = 0;
    }
}

static void op_find(const size_t key)
{
    void * const f = cstl_hash_find(&H, key, NULL, NULL);
    size_t i, n = 0;
    for (i = 0; i < npool; i++) {
        n += pool[i].live && pool[i].key == key;
    }
    CHECK((f != NULL) == (n != 0));
    if (f != NULL) {
        CHECK(as_item(f)->live && as_item(f)->key == key);
    }
}

/* clear, then check that the table is empty and can be used again */
static void finish_clear(const int with_cb)
{
    const size_t n = model_size();
    size_t i;

    ncleared = 0;
    if (with_cb) {
        cstl_hash_clear(&H, clear_cb);
        CHECK(ncleared == n);
    } else {
        cstl_hash_clear(&H, NULL);
        for (i = 0; i < npool; i++) {
            pool[i].live = 0;
        }
    }
    CHECK(model_size() == 0);
    CHECK(cstl_hash_size(&H) == 0);
    enum_const();
    enum_mut();

    /* reusable after a fresh resize */
    npool = 0;
    cstl_hash_resize(&H, 3, NULL);
    op_insert(1);
    op_insert(4);
    op_insert(1);
    enum_const();
    cstl_hash_resize(&H, 7, cstl_hash_div);
    enum_const();
    op_find(4);
    enum_const();
    enum_mut();
    ncleared = 0;
    cstl_hash_clear(&H, clear_cb);
    CHECK(ncleared == 3);
    CHECK(cstl_hash_size(&H) == 0);
    /* clearing a cleared table is harmless */
    cstl_hash_clear(&H, clear_cb);
    CHECK(ncleared == 3);
    npool = 0;
}

#define NFINAL 7
static void final_action(const int a, const size_t salt)
{
    switch (a) {
    case 0:
        enum_const_stop(salt);
        enum_const();
        finish_clear(1);
        break;
    case 1:
        enum_mut();
        enum_const();
        finish_clear(0);
        break;
    case 2:
        enum_mut_stop(salt);
        enum_const();
        finish_clear(1);
        break;
    case 3:
        enum_mut_erase(1);
        finish_clear(1);
        break;
    case 4:
        enum_mut_erase(0); /* erase everything from inside the walk */
        CHECK(cstl_hash_size(&H) == 0);
        finish_clear(1);
        break;
    case 5:
        finish_clear(1); /* clear straight out of whatever state this is */
        break;
    default:
        enum_mut_erase(3);
        enum_mut();
        finish_clear(0);
        break;
    }
}

#define NOPS 12
static void small_op(const int op)
{
    switch (op) {
    case 0: case 1: case 2:
        op_insert((size_t)op);
        break;
    case 3: case 4:
        op_find((size_t)(op - 3));
        break;
    case 5: case 6:
        op_erase_key((size_t)(op - 5), op & 1);
        break;
    case 7:
        cstl_hash_resize(&H, 1, NULL);
        break;
    case 8:
        cstl_hash_resize(&H, 5, NULL);
        break;
    case 9:
        cstl_hash_resize(&H, 3, hash_rev);
        break;
    case 10:
        cstl_hash_resize(&H, 4, cstl_hash_mul);
        break;
    default:
        cstl_hash_shrink_to_fit(&H);
        break;
    }
    /* looking does not disturb anything, so look after every step */
    enum_const();
}

static unsigned long exhaustive(const int len)
{
    unsigned long total, s, n = 0;
    int i, l, a;

    for (l = 0; l <= len; l++) {
        total = 1;
        for (i = 0; i < l; i++) {
            total *= NOPS;
        }
        for (s = 0; s < total; s++) {
            for (a = 0; a < NFINAL; a++) {
                unsigned long x = s;
                size_t k;

                table_init();
                for (k = 0; k < 5; k++) {
                    op_insert(k % 3);
                }
                for (i = 0; i < l; i++) {
                    small_op((int)(x % NOPS));
                    x /= NOPS;
                }
                final_action(a, (size_t)s);
                n++;
            }
        }
    }
    return n;
}

static unsigned int rnd_state;
static unsigned int rnd(void)
{
    rnd_state = rnd_state * 1103515245u + 12345u;
    return (rnd_state >> 16) & 0x7fff;
}

/*
 * n elements, resize, then `steps` incremental operations into the
 * rehash, then one of the enumeration entry points
 */
static void staged(const unsigned int seed)
{
    size_t i, n, steps;
    const size_t nk = 1 + seed % 23;

    rnd_state = seed;
    table_init();
    cstl_hash_resize(&H, 1 + rnd() % 24, funcs[rnd() % NFUNCS]);
    n = rnd() % 120;
    for (i = 0; i < n; i++) {
        op_insert(rnd() % nk);
    }
    enum_const();
    /* grow, shrink or just change the function */
    cstl_hash_resize(&H, 1 + rnd() % 48, funcs[rnd() % NFUNCS]);
    enum_const();
    steps = rnd() % 40;
    for (i = 0; i < steps; i++) {
        switch (rnd() % 4) {
        case 0:
            op_insert(rnd() % nk);
            break;
        case 1:
            op_erase_key(rnd() % nk, (int)(rnd() & 1));
            break;
        default:
            op_find(rnd() % nk);
            break;
        }
        enum_const();
        if (rnd() % 16 == 0) {
            /* a new resize while the earlier one is (maybe) pending */
            cstl_hash_resize(&H, 1 + rnd() % 48, funcs[rnd() % NFUNCS]);
            enum_const();
        }
    }
    enum_const_stop(seed);
    final_action((int)(seed % NFINAL), seed / 3);
}

/*
 * the caller gets rid of the elements itself (they are gone, their nodes
 * are garbage) and then clears the table without a callback
 */
static void clear_after_disposal(const unsigned int seed)
{
    size_t i, n;

    rnd_state = seed;
    table_init();
    n = rnd() % 60;
    for (i = 0; i < n; i++) {
        op_insert(rnd() % 11);
    }
    cstl_hash_resize(&H, 1 + rnd() % 40, funcs[rnd() % NFUNCS]);
    for (i = 0; i < seed % 9; i++) {
        op_find(rnd() % 11);
    }
    enum_const();
    for (i = 0; i < npool; i++) {
        pool[i].live = 0;
        memset(&pool[i].hn, 0xee, sizeof(pool[i].hn));
    }
    cstl_hash_clear(&H, NULL);
    CHECK(cstl_hash_size(&H) == 0);
    npool = 0;
    finish_clear(1);
}

int main(void)
{
    unsigned long n = 0;
    unsigned int seed;

    n += exhaustive(5);
    for (seed = 1; seed <= 3000; seed++) {
        staged(seed);
        staged(seed * 7 + 5); /* lands on final action 5: clear */
        clear_after_disposal(seed);
    }
    printf("ok: %lu exhaustive histories, %lu const enumerations\n",
           n, nenum);
    return 0;
}
