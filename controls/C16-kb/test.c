/*
 * C16 / change b: cstl_map_insert() of new and of already present keys
 * under injected allocation failures (every single, every suffix, every
 * pair), checked against a model after every operation.
 *
 * build (from the worktree root, after `make build`):
 *   gcc -std=c99 -D_POSIX_C_SOURCE=199309L -Wall -Wextra -Iinclude -o _keep/b/test _keep/b/test.c build/libcstl.a -lm -Wl,--wrap=malloc,--wrap=realloc,--wrap=calloc,--wrap=free
 * run:
 *   ./_keep/b/test
 */
#include "cstl/map.h"

#include <stdio.h>
#include <stdlib.h>
#include <string.h>

void * __real_malloc(size_t);
void * __real_realloc(void *, size_t);
void * __real_calloc(size_t, size_t);
void __real_free(void *);

static long live, seen, armed;
static unsigned long fail_mask;

static int should_fail(void)
{
    if (armed) {
        const long n = seen++;
        return n < 64 && ((fail_mask >> n) & 1) != 0;
    }
    return 0;
}

void * __wrap_malloc(size_t n)
{
    void * p;
    if (should_fail()) {
        return NULL;
    }
    p = __real_malloc(n);
    live += (p != NULL);
    return p;
}

void * __wrap_calloc(size_t n, size_t m)
{
    void * p;
    if (should_fail()) {
        return NULL;
    }
    p = __real_calloc(n, m);
    live += (p != NULL);
    return p;
}

void * __wrap_realloc(void * o, size_t n)
{
    void * p;
    if (should_fail()) {
        return NULL;
    }
    p = __real_realloc(o, n);
    if (o == NULL) {
        live += (p != NULL);
    } else if (n == 0 && p == NULL) {
        live--;
    }
    return p;
}

void __wrap_free(void * p)
{
    live -= (p != NULL);
    __real_free(p);
}

#define CHECK(X)                                                        \
    do {                                                                \
        if (!(X)) {                                                     \
            printf("FAIL %s:%d mask=%lx: %s\n",                         \
                   __FILE__, __LINE__, fail_mask, #X);                  \
            exit(1);                                                    \
        }                                                               \
    } while (0)


#define NKEYS 12
static int keys[NKEYS], vals[NKEYS];
static int present[NKEYS];

static int kcmp(const void * a, const void * b, void * p)
{
    (void)p;
    return *(const int *)a - *(const int *)b;
}

static void audit(cstl_map_t * const m)
{
    size_t n = 0;
    int i;
    for (i = 0; i < NKEYS; i++) {
        cstl_map_iterator_t it;
        cstl_map_find(m, &keys[i], &it);
        if (present[i]) {
            n++;
            CHECK(!cstl_map_iterator_eq(&it, cstl_map_iterator_end(m)));
            CHECK(it.key == &keys[i]);
            CHECK(it.val == &vals[i]);
        } else {
            CHECK(cstl_map_iterator_eq(&it, cstl_map_iterator_end(m)));
        }
    }
    CHECK(cstl_map_size(m) == n);
}

static int dummy;

static void do_insert(cstl_map_t * const m, const int k, const int use_it)
{
    cstl_map_iterator_t it;
    /* a second insert of a key offers a different value pointer */
    void * const v = present[k] ? (void *)&dummy : (void *)&vals[k];
    const int r = cstl_map_insert(m, &keys[k], v, use_it ? &it : NULL);

    if (present[k]) {
        /* the existing element is reported whatever the allocator did */
        CHECK(r == 1);
        if (use_it) {
            CHECK(it.key == &keys[k] && it.val == &vals[k]);
            CHECK(!cstl_map_iterator_eq(&it, cstl_map_iterator_end(m)));
        }
    } else {
        CHECK(r == 0 || r == -1);
        if (r == 0) {
            present[k] = 1;
            if (use_it) {
                CHECK(it.key == &keys[k] && it.val == &vals[k]);
            }
        } else if (use_it) {
            CHECK(cstl_map_iterator_eq(&it, cstl_map_iterator_end(m)));
        }
    }
    audit(m);
}

static void do_erase(cstl_map_t * const m, const int k)
{
    cstl_map_iterator_t it;
    const int r = cstl_map_erase(m, &keys[k], &it);
    CHECK(r == (present[k] ? 0 : -1));
    if (present[k]) {
        CHECK(it.key == &keys[k] && it.val == &vals[k]);
    }
    present[k] = 0;
    audit(m);
}

static int cleared;
static void on_clear(void * const i, void * const p)
{
    const cstl_map_iterator_t * const it = i;
    (void)p;
    CHECK(present[(const int *)it->key - keys]);
    cleared++;
}

static void script(void)
{
    cstl_map_t m;
    int i, n;

    memset(present, 0, sizeof(present));
    cstl_map_init(&m, kcmp, NULL);
    audit(&m);

    for (i = 0; i < NKEYS; i += 2) {
        do_insert(&m, i, i & 2);
    }
    for (i = 0; i < NKEYS; i += 3) {
        do_insert(&m, i, 1);            /* half of these are duplicates */
    }
    do_insert(&m, 0, 0);
    do_insert(&m, 0, 1);
    do_erase(&m, 4);
    do_erase(&m, 5);
    do_insert(&m, 4, 1);
    do_insert(&m, 4, 1);
    for (i = NKEYS - 1; i >= 0; i--) {
        do_insert(&m, i, 0);            /* retry everything once more */
    }
    do_erase(&m, 0);
    do_insert(&m, 0, 1);

    for (i = 0, n = 0; i < NKEYS; i++) {
        n += present[i];
    }
    cleared = 0;
    cstl_map_clear(&m, on_clear, NULL);
    CHECK(cleared == n);
    CHECK(cstl_map_size(&m) == 0);
}

static unsigned long runs;
static void run(const unsigned long mask)
{
    fail_mask = mask;
    armed = 1; seen = 0;
    script();
    armed = 0;
    CHECK(live == 0);
    runs++;
}

int main(void)
{
    /* an upper bound on the allocator calls of the script in any variant */
    enum { N = 40 };
    int i, j;

    for (i = 0; i < NKEYS; i++) {
        keys[i] = 10 * i;
        vals[i] = -i;
    }

    run(0);
    CHECK(seen >= 10 && seen <= N);
    printf("allocator calls in the failure-free run: %ld\n", seen);

    for (i = 0; i < N; i++) {
        run(1ul << i);                          /* single */
        run(~0ul << i);                         /* suffix */
        for (j = i + 1; j < N; j++) {
            run((1ul << i) | (1ul << j));       /* pair */
        }
    }
    run(~0ul);

    printf("ok: %lu runs\n", runs);
    return 0;
}
