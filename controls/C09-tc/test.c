/*
 * C09: a vector never reports size or capacity it has no storage for.
 *
 * Standalone test, public API only. The program supplies its own
 * malloc/calloc/realloc/free (thin wrappers around glibc's __libc_*
 * entry points) so that it can
 *   - know every live allocation and its length,
 *   - refuse absurd requests deterministically,
 *   - make allocations fail on demand.
 * Nothing is assumed about HOW the library obtains its memory
 * (malloc/realloc/calloc, one call or several, where in the block the
 * elements live), only that the storage the vector reports exists.
 */
#define _POSIX_C_SOURCE 200809L

#include <stdio.h>
#include <stdlib.h>
#include <string.h>
#include <stdint.h>
#include <errno.h>
#include <signal.h>
#include <unistd.h>
#include <sys/types.h>
#include <sys/wait.h>
#include <sys/resource.h>

#include "cstl/vector.h"

/* ------------------------------------------------------------------ */
/* allocator wrappers                                                  */

extern void * __libc_malloc(size_t);
extern void * __libc_calloc(size_t, size_t);
extern void * __libc_realloc(void *, size_t);
extern void __libc_free(void *);

#define MAXLIVE 8192
#define ALLOC_LIMIT ((size_t)1 << 27)

static struct blk { char * p; size_t n; } live_blk[MAXLIVE];
static size_t nlive;
static volatile int fail_allocs;

static void die_raw(const char * const msg)
{
    ssize_t r = write(2, msg, strlen(msg));
    (void)r;
    _exit(3);
}

static void blk_track(void * const p, const size_t n)
{
    if (nlive == MAXLIVE) {
        die_raw("test: too many live allocations\n");
    }
    live_blk[nlive].p = p;
    live_blk[nlive].n = n;
    nlive++;
}

static void blk_untrack(void * const p)
{
    size_t i;
    for (i = 0; i < nlive; i++) {
        if (live_blk[i].p == (char *)p) {
            live_blk[i] = live_blk[--nlive];
            return;
        }
    }
}

static const struct blk * blk_of(const void * const p)
{
    size_t i;
    for (i = 0; i < nlive; i++) {
        if ((const char *)p >= live_blk[i].p
            && (const char *)p < live_blk[i].p + live_blk[i].n) {
            return &live_blk[i];
        }
    }
    return NULL;
}

void * malloc(size_t n)
{
    void * p;
    if (fail_allocs || n > ALLOC_LIMIT) {
        errno = ENOMEM;
        return NULL;
    }
    p = __libc_malloc(n);
    if (p != NULL) {
        blk_track(p, n);
    }
    return p;
}

void * calloc(size_t a, size_t b)
{
    void * p;
    if (fail_allocs || (b != 0 && a > ALLOC_LIMIT / b)) {
        errno = ENOMEM;
        return NULL;
    }
    p = __libc_calloc(a, b);
    if (p != NULL) {
        blk_track(p, a * b);
    }
    return p;
}

void free(void * p)
{
    if (p != NULL) {
        blk_untrack(p);
        __libc_free(p);
    }
}

void * realloc(void * p, size_t n)
{
    void * q;
    if (p == NULL) {
        return malloc(n);
    }
    if (fail_allocs || n > ALLOC_LIMIT) {
        errno = ENOMEM;
        return NULL;
    }
    if (n == 0) {
        /* glibc: frees and returns NULL */
        free(p);
        return NULL;
    }
    q = __libc_realloc(p, n);
    if (q != NULL) {
        blk_untrack(p);
        blk_track(q, n);
    }
    return q;
}

/* ------------------------------------------------------------------ */
/* utilities                                                           */

static unsigned long checks;
static const char * where = "?";
static size_t cur_es_info;
static unsigned long cur_iter;

#define CHECK(c)                                                        \
    do {                                                                \
        checks++;                                                       \
        if (!(c)) {                                                     \
            fprintf(stderr,                                             \
                    "FAIL %s:%d: %s (in %s, es=%lu, iter=%lu)\n",       \
                    __FILE__, __LINE__, #c, where,                      \
                    (unsigned long)cur_es_info, cur_iter);              \
            exit(1);                                                    \
        }                                                               \
    } while (0)

static uint64_t rng_state = 0x9e3779b97f4a7c15ull;
static uint64_t rnd(void)
{
    uint64_t x = rng_state;
    x ^= x << 13;
    x ^= x >> 7;
    x ^= x << 17;
    rng_state = x;
    return x;
}

/* run fn(arg) in a child; report whether it died of SIGABRT */
static int aborts(void (* const fn)(void *), void * const arg)
{
    pid_t pid;
    int st = 0;

    fflush(stdout);
    fflush(stderr);
    pid = fork();
    if (pid < 0) {
        perror("fork");
        exit(2);
    }
    if (pid == 0) {
        fn(arg);
        _exit(0);
    }
    if (waitpid(pid, &st, 0) != pid) {
        perror("waitpid");
        exit(2);
    }
    return WIFSIGNALED(st) && WTERMSIG(st) == SIGABRT;
}

/* ------------------------------------------------------------------ */
/* model                                                               */

#define MAXES 64
#define MAXN  160

struct model
{
    size_t es;
    int xt;                     /* bit 0: constructor, bit 1: destructor */
    size_t n;
    unsigned char bytes[MAXN * MAXES];
    unsigned char live[MAXN];
    unsigned long ncons, ndest, xcons, xdest;
    unsigned long serial;
    struct cstl_vector * vec;
    int phase;                  /* 0: no callback expected, 1 grow, 2 shrink */
    size_t lo, hi;
    int id;
};

static void m_cons(void * const p, void * const priv)
{
    struct model * const m = priv;
    const char * base;
    size_t off, idx, k;

    CHECK(m != NULL);
    CHECK((m->xt & 1) != 0);
    CHECK(m->phase == 1);
    base = cstl_vector_data(m->vec);
    CHECK(base != NULL);
    CHECK((const char *)p >= base);
    off = (size_t)((const char *)p - base);
    CHECK(off % m->es == 0);
    idx = off / m->es;
    CHECK(idx >= m->lo && idx < m->hi);
    CHECK(idx < cstl_vector_capacity(m->vec));
    CHECK(!m->live[idx]);
    m->serial++;
    for (k = 0; k < m->es; k++) {
        m->bytes[idx * m->es + k] =
            (unsigned char)(m->serial * 131 + k * 7 + 1 + (unsigned)m->id);
    }
    memcpy(p, &m->bytes[idx * m->es], m->es);
    m->live[idx] = 1;
    m->ncons++;
}

static void m_dest(void * const p, void * const priv)
{
    struct model * const m = priv;
    const char * base;
    size_t off, idx;

    CHECK(m != NULL);
    CHECK((m->xt & 2) != 0);
    CHECK(m->phase == 2);
    base = cstl_vector_data(m->vec);
    CHECK(base != NULL);
    CHECK((const char *)p >= base);
    off = (size_t)((const char *)p - base);
    CHECK(off % m->es == 0);
    idx = off / m->es;
    CHECK(idx >= m->lo && idx < m->hi);
    CHECK(m->live[idx]);
    CHECK(memcmp(p, &m->bytes[idx * m->es], m->es) == 0);
    memset(p, 0xDD, m->es);
    m->live[idx] = 0;
    m->ndest++;
}

static void m_init(struct model * const m, struct cstl_vector * const v,
                   const size_t es, const int xt, const int id,
                   const int do_init)
{
    memset(m, 0, sizeof(*m));
    m->es = es;
    m->xt = xt;
    m->vec = v;
    m->id = id;
    if (do_init) {
        if (xt == 0 && (rnd() & 1)) {
            cstl_vector_init(v, es);
        } else {
            cstl_vector_init_complex(v, es,
                                     (xt & 1) ? m_cons : NULL,
                                     (xt & 2) ? m_dest : NULL,
                                     m);
        }
    }
}

/* the central invariant check */
static void verify(const struct model * const m)
{
    struct cstl_vector * const v = m->vec;
    const size_t sz = cstl_vector_size(v);
    const size_t cap = cstl_vector_capacity(v);
    char * const data = cstl_vector_data(v);
    size_t i;

    CHECK(sz == m->n);
    CHECK(cap >= sz);
    CHECK(cap < ((size_t)1 << 24));
    if (data == NULL) {
        CHECK(cap == 0);
        CHECK(sz == 0);
    } else {
        const struct blk * const b = blk_of(data);
        CHECK(b != NULL);
        /* one live allocation, large enough for cap + 1 elements ... */
        CHECK(b->n >= (cap + 1) * m->es);
        /* ... in which every slot below the capacity lies */
        CHECK(data >= b->p);
        CHECK(data + cap * m->es <= b->p + b->n);
    }
    for (i = 0; i < sz; i++) {
        char * const p = cstl_vector_at(v, i);
        const struct blk * const b = blk_of(p);
        CHECK(p == data + i * m->es);
        CHECK(cstl_vector_at_const(v, i) == (const void *)p);
        CHECK(b != NULL && b == blk_of(data));
        CHECK(p >= b->p && p + m->es <= b->p + b->n);
        CHECK(memcmp(p, &m->bytes[i * m->es], m->es) == 0);
    }
    for (i = 0; i < MAXN; i++) {
        CHECK(m->live[i] == (i < sz));
    }
    CHECK(m->ncons == m->xcons);
    CHECK(m->ndest == m->xdest);
}

static void fill_random(struct model * const m, const size_t i)
{
    size_t k;
    unsigned char * const p = cstl_vector_at(m->vec, i);
    for (k = 0; k < m->es; k++) {
        /* few distinct values so that sorting sees ties */
        m->bytes[i * m->es + k] = (unsigned char)(rnd() % 5);
    }
    memcpy(p, &m->bytes[i * m->es], m->es);
}

static void do_resize(struct model * const m, const size_t n)
{
    const size_t old = m->n;
    size_t i;

    where = "resize";
    CHECK(n < MAXN);
    if (n > old) {
        m->phase = (m->xt & 1) ? 1 : 0;
        m->lo = old; m->hi = n;
        if (m->xt & 1) {
            m->xcons += n - old;
        }
    } else if (n < old) {
        m->phase = (m->xt & 2) ? 2 : 0;
        m->lo = n; m->hi = old;
        if (m->xt & 2) {
            m->xdest += old - n;
        }
    } else {
        m->phase = 0;
    }
    cstl_vector_resize(m->vec, n);
    m->phase = 0;
    m->n = n;
    CHECK(cstl_vector_size(m->vec) == n);
    CHECK(cstl_vector_capacity(m->vec) >= n);
    if (n > old && !(m->xt & 1)) {
        for (i = old; i < n; i++) {
            m->live[i] = 1;
            fill_random(m, i);
        }
    } else if (n < old && !(m->xt & 2)) {
        for (i = n; i < old; i++) {
            m->live[i] = 0;
        }
    }
    verify(m);
}

static void do_reserve(struct model * const m, const size_t n)
{
    const size_t cap = cstl_vector_capacity(m->vec);
    where = "reserve";
    m->phase = 0;
    cstl_vector_reserve(m->vec, n);
    if (n <= cap) {
        CHECK(cstl_vector_capacity(m->vec) == cap);
    } else {
        /* nothing prevents this request from being satisfied */
        CHECK(cstl_vector_capacity(m->vec) >= n);
    }
    verify(m);
}

static void do_shrink(struct model * const m)
{
    const size_t cap = cstl_vector_capacity(m->vec);
    where = "shrink_to_fit";
    m->phase = 0;
    cstl_vector_shrink_to_fit(m->vec);
    CHECK(cstl_vector_capacity(m->vec) <= cap);
    verify(m);
}

static void do_clear(struct model * const m)
{
    size_t i;
    where = "clear";
    m->phase = (m->xt & 2) ? 2 : 0;
    m->lo = 0; m->hi = m->n;
    if (m->xt & 2) {
        m->xdest += m->n;
    } else {
        for (i = 0; i < m->n; i++) {
            m->live[i] = 0;
        }
    }
    cstl_vector_clear(m->vec);
    m->phase = 0;
    m->n = 0;
    CHECK(cstl_vector_size(m->vec) == 0);
    CHECK(cstl_vector_capacity(m->vec) == 0);
    CHECK(cstl_vector_data(m->vec) == NULL);
    verify(m);
}

/* --- sort / reverse ------------------------------------------------ */

static size_t qs_es;
static int qs_cmp(const void * const a, const void * const b)
{
    return memcmp(a, b, qs_es);
}

/*
 * a comparison callback that also works on ANOTHER vector
 * (growing, reversing, sorting and clearing it) while the
 * sort of the first one is in progress
 */
static struct cstl_vector aux_vec;
static unsigned long aux_tick;
static int in_aux;

static int aux_cmp(const void * const a, const void * const b, void * const p)
{
    (void)p;
    return (int)*(const unsigned char *)a - (int)*(const unsigned char *)b;
}

struct cmp_ctx
{
    const struct model * m;
    unsigned long calls;
};

static int m_cmp(const void * const a, const void * const b, void * const priv)
{
    struct cmp_ctx * const c = priv;
    c->calls++;
    if (!in_aux && (c->calls % 5) == 0) {
        size_t i, n;
        in_aux = 1;
        aux_tick++;
        n = (aux_tick * 3) % 23;
        cstl_vector_resize(&aux_vec, n);
        for (i = 0; i < n; i++) {
            *(unsigned char *)cstl_vector_at(&aux_vec, i) =
                (unsigned char)((i * 37 + aux_tick) % 11);
        }
        if (aux_tick & 1) {
            cstl_vector_reverse(&aux_vec);
        } else {
            cstl_vector_sort(&aux_vec, aux_cmp, NULL);
            for (i = 1; i < n; i++) {
                CHECK(*(unsigned char *)cstl_vector_at(&aux_vec, i - 1)
                      <= *(unsigned char *)cstl_vector_at(&aux_vec, i));
            }
        }
        CHECK(cstl_vector_size(&aux_vec) == n);
        CHECK(cstl_vector_capacity(&aux_vec) >= n);
        if ((aux_tick % 7) == 0) {
            cstl_vector_clear(&aux_vec);
        }
        in_aux = 0;
    }
    return memcmp(a, b, c->m->es);
}

static const struct model * swap_m;
static unsigned long swap_calls;

static void m_swap(void * const a, void * const b, void * const t,
                   const size_t len)
{
    const struct model * const m = swap_m;
    char * const data = cstl_vector_data(m->vec);
    const size_t span = m->n * m->es;

    swap_calls++;
    CHECK(len == m->es);
    CHECK((char *)a >= data && (char *)a + len <= data + span);
    CHECK((char *)b >= data && (char *)b + len <= data + span);
    CHECK(((size_t)((char *)a - data)) % m->es == 0);
    CHECK(((size_t)((char *)b - data)) % m->es == 0);
    CHECK(t != NULL);
    /* the scratch space must not be one of the valid elements */
    CHECK((char *)t + len <= data || (char *)t >= data + span);
    memset(t, 0xA5, len);
    memcpy(t, a, len);
    memcpy(a, b, len);
    memcpy(b, t, len);
    memset(t, 0x5A, len);
}

static void do_sort(struct model * const m)
{
    static const cstl_sort_algorithm_t algos[] = {
        CSTL_SORT_ALGORITHM_QUICK,
        CSTL_SORT_ALGORITHM_QUICK_R,
        CSTL_SORT_ALGORITHM_QUICK_M,
        CSTL_SORT_ALGORITHM_HEAP,
        CSTL_SORT_ALGORITHM_DEFAULT,
        (cstl_sort_algorithm_t)777,
    };
    struct cmp_ctx ctx;
    const unsigned int how = (unsigned int)(rnd() % 3);

    where = "sort";
    ctx.m = m;
    ctx.calls = 0;
    m->phase = 0;
    swap_m = m;
    if (how == 0) {
        cstl_vector_sort(m->vec, m_cmp, &ctx);
    } else {
        __cstl_vector_sort(m->vec, m_cmp, &ctx,
                           how == 1 ? cstl_swap : m_swap,
                           algos[rnd() % (sizeof(algos) / sizeof(*algos))]);
    }
    qs_es = m->es;
    qsort(m->bytes, m->n, m->es, qs_cmp);
    verify(m);
}

static void do_reverse(struct model * const m)
{
    size_t i, j;
    unsigned char t[MAXES];

    where = "reverse";
    m->phase = 0;
    swap_m = m;
    if (rnd() & 1) {
        cstl_vector_reverse(m->vec);
    } else {
        __cstl_vector_reverse(m->vec, m_swap);
    }
    if (m->n > 1) {
        for (i = 0, j = m->n - 1; i < j; i++, j--) {
            memcpy(t, &m->bytes[i * m->es], m->es);
            memcpy(&m->bytes[i * m->es], &m->bytes[j * m->es], m->es);
            memcpy(&m->bytes[j * m->es], t, m->es);
        }
    }
    verify(m);
}

/* --- out-of-range requests ----------------------------------------- */

static size_t huge_size(const size_t es)
{
    const size_t q = SIZE_MAX / es;
    switch (rnd() % 22) {
    case 0: return SIZE_MAX;
    case 1: return SIZE_MAX - 1;
    case 2: return SIZE_MAX - 2;
    case 3: return q;
    case 4: return q - 1;
    case 5: return q - 2;
    case 6: return q + 1 > q ? q + 1 : q;
    case 7: return q <= SIZE_MAX - 2 ? q + 2 : q;
    case 8: return SIZE_MAX / 2;
    case 9: return SIZE_MAX / 2 + 1;
    case 10: return SIZE_MAX / 2 / es;
    case 11: return SIZE_MAX / 2 / es + 1;
    case 12: return q <= (SIZE_MAX - 1) / 2 ? 2 * q + 1 : q;
    case 13: return q <= (SIZE_MAX - 2) / 3 ? 3 * q + 2 : q - 3;
    case 14: return (size_t)1 << (sizeof(size_t) * 8 - 1);
    case 15: return ((size_t)1 << (sizeof(size_t) * 8 - 1)) - 1;
    case 16: return (size_t)1 << 32;
    case 17: return ((size_t)1 << 32) + (rnd() % 16);
    case 18: return ALLOC_LIMIT;
    case 19: return q <= SIZE_MAX - 64 ? q + (rnd() % 64) : q;
    case 20: return q - (rnd() % 64);
    default: return SIZE_MAX - (rnd() % 64);
    }
}

static void do_reserve_huge(struct model * const m)
{
    const size_t cap = cstl_vector_capacity(m->vec);
    void * const data = cstl_vector_data(m->vec);
    const size_t n = huge_size(m->es);

    where = "reserve(huge)";
    m->phase = 0;
    cstl_vector_reserve(m->vec, n);
    /* cannot be satisfied: quiet no-op */
    CHECK(cstl_vector_capacity(m->vec) == cap);
    CHECK(cstl_vector_data(m->vec) == data);
    verify(m);
}

struct call
{
    struct cstl_vector * v;
    size_t n;
    int fail;
};

static void call_resize(void * const p)
{
    struct call * const c = p;
    fail_allocs = c->fail;
    cstl_vector_resize(c->v, c->n);
}

static void call_at(void * const p)
{
    struct call * const c = p;
    (void)cstl_vector_at(c->v, c->n);
}

static void call_at_const(void * const p)
{
    struct call * const c = p;
    (void)cstl_vector_at_const(c->v, c->n);
}

static void do_resize_huge(struct model * const m)
{
    struct call c;
    where = "resize(huge)";
    c.v = m->vec;
    c.n = huge_size(m->es);
    c.fail = 0;
    m->phase = 0;
    CHECK(aborts(call_resize, &c));
    verify(m);
}

static void do_at_oob(struct model * const m)
{
    struct call c;
    const size_t sz = m->n;
    const size_t cap = cstl_vector_capacity(m->vec);

    where = "at(out of range)";
    c.v = m->vec;
    c.fail = 0;
    switch (rnd() % 12) {
    case 0: c.n = sz; break;
    case 1: c.n = sz + 1; break;
    case 2: c.n = cap > sz ? cap : sz; break;
    case 3: c.n = cap + 1; break;
    case 4: c.n = SIZE_MAX; break;
    case 5: c.n = SIZE_MAX / m->es; break;
    case 6: c.n = SIZE_MAX / m->es + 1; break;
    case 7: c.n = sz + ((size_t)1 << 32); break;
    case 8: c.n = (size_t)1 << (sizeof(size_t) * 8 - 1); break;
    case 9: c.n = ((size_t)1 << (sizeof(size_t) * 8 - 1)) + (sz ? sz - 1 : 0);
        break;
    case 10: c.n = (size_t)-2; break;
    default: c.n = sz + (rnd() % 100); break;
    }
    if (c.n < sz) {
        c.n = sz;   /* the arithmetic above wrapped */
    }
    if (rnd() & 1) {
        CHECK(aborts(call_at, &c));
    } else {
        CHECK(aborts(call_at_const, &c));
    }
    verify(m);
}

/* --- allocation failure -------------------------------------------- */

static void do_alloc_failure(struct model * const m, const int may_fork)
{
    size_t cap = cstl_vector_capacity(m->vec);
    void * data = cstl_vector_data(m->vec);
    size_t n;

    where = "reserve under allocation failure";
    m->phase = 0;
    fail_allocs = 1;
    cstl_vector_reserve(m->vec, cap + 1 + (rnd() % 9));
    fail_allocs = 0;
    CHECK(cstl_vector_capacity(m->vec) == cap);
    CHECK(cstl_vector_data(m->vec) == data);
    verify(m);

    where = "shrink_to_fit under allocation failure";
    fail_allocs = 1;
    cstl_vector_shrink_to_fit(m->vec);
    fail_allocs = 0;
    CHECK(cstl_vector_capacity(m->vec) <= cap);
    verify(m);

    /* a resize within the capacity always succeeds */
    cap = cstl_vector_capacity(m->vec);
    n = cap < MAXN ? cap : MAXN - 1;
    n = (size_t)(rnd() % (n + 1));
    fail_allocs = 1;
    do_resize(m, n);
    fail_allocs = 0;
    CHECK(cstl_vector_capacity(m->vec) >= n);

    if (may_fork) {
        struct call c;
        where = "resize under allocation failure";
        c.v = m->vec;
        c.n = cstl_vector_capacity(m->vec) + 1 + (rnd() % 4);
        c.fail = 1;
        m->phase = 0;
        CHECK(aborts(call_resize, &c));
        verify(m);
    }
}

/* --- driver --------------------------------------------------------- */

static size_t pick_size(const struct model * const m)
{
    const size_t sz = m->n;
    const size_t cap = cstl_vector_capacity(m->vec);
    size_t n;

    switch (rnd() % 12) {
    case 0: case 1: case 2: case 3:
        n = (size_t)(rnd() % 24); break;
    case 4:
        n = sz + (size_t)(rnd() % 5); n = n >= 2 ? n - 2 : 0; break;
    case 5:
        n = cap + (size_t)(rnd() % 5); n = n >= 2 ? n - 2 : 0; break;
    case 6:
        n = (size_t)(rnd() % MAXN); break;
    case 7:
        n = 0; break;
    case 8:
        n = sz; break;
    case 9:
        n = cap; break;
    case 10:
        n = cap + 1; break;
    default:
        n = sz + 1; break;
    }
    if (n >= MAXN) {
        n = MAXN - 1;
    }
    return n;
}

static void run(struct cstl_vector * const va, struct model * const ma,
                struct cstl_vector * const vb, struct model * const mb,
                const unsigned int iters, const unsigned int forks)
{
    struct cstl_vector * V[2];
    struct model * M[2];
    unsigned int it;
    unsigned int forks_left = forks;
    size_t base_live;

    cstl_vector_clear(&aux_vec);
    base_live = nlive;

    V[0] = va; V[1] = vb;
    M[0] = ma; M[1] = mb;

    verify(M[0]);
    verify(M[1]);

    for (it = 0; it < iters; it++) {
        const unsigned int w = (unsigned int)(rnd() & 1);
        struct model * const m = M[w];
        const unsigned int op = (unsigned int)(rnd() % 100);
        int fork_ok = 0;

        cur_iter = it;
        cur_es_info = m->es;

        /* spread the (expensive) forking operations over the run */
        if (forks_left > 0
            && (rnd() % (iters - it)) < (uint64_t)forks_left * 3) {
            fork_ok = 1;
        }

        if (op < 30) {
            do_resize(m, pick_size(m));
        } else if (op < 42) {
            do_reserve(m, pick_size(m) + (size_t)(rnd() % 3));
        } else if (op < 50) {
            do_shrink(m);
        } else if (op < 54) {
            do_clear(m);
        } else if (op < 62) {
            struct model * t;
            where = "swap";
            cstl_vector_swap(V[0], V[1]);
            t = M[0]; M[0] = M[1]; M[1] = t;
            M[0]->vec = V[0];
            M[1]->vec = V[1];
            verify(M[0]);
            verify(M[1]);
        } else if (op < 70) {
            do_sort(m);
        } else if (op < 76) {
            do_reverse(m);
        } else if (op < 84) {
            size_t k;
            where = "write";
            for (k = 0; k < 4 && m->n > 0; k++) {
                fill_random(m, (size_t)(rnd() % m->n));
            }
            verify(m);
        } else if (op < 92) {
            do_reserve_huge(m);
        } else if (op < 96) {
            do_alloc_failure(m, fork_ok && forks_left > 0);
            if (fork_ok && forks_left > 0) {
                forks_left--;
            }
        } else if (fork_ok && forks_left > 0) {
            forks_left--;
            if (rnd() & 1) {
                do_resize_huge(m);
            } else {
                do_at_oob(m);
            }
        }
        verify(M[w ^ 1]);
    }

    /* whatever was skipped above for lack of luck */
    while (forks_left > 0) {
        struct model * const m = M[forks_left & 1];
        cur_es_info = m->es;
        if (forks_left % 3 == 0) {
            do_resize_huge(m);
        } else {
            do_at_oob(m);
        }
        forks_left--;
    }

    do_clear(M[0]);
    do_clear(M[1]);
    cstl_vector_clear(&aux_vec);
    where = "leak check";
    CHECK(nlive == base_live);
}

/* vectors declared with the static initialiser, of several types */
struct s24 { uint64_t a; uint32_t b; uint16_t c; uint8_t d[10]; };
struct s64 { unsigned char b[64]; };
struct s3 { unsigned char b[3]; };

static DECLARE_CSTL_VECTOR(g_u8, uint8_t);
static DECLARE_CSTL_VECTOR(g_u16, uint16_t);
static DECLARE_CSTL_VECTOR(g_u32, uint32_t);
static DECLARE_CSTL_VECTOR(g_u64, uint64_t);
static DECLARE_CSTL_VECTOR(g_ld, long double);
static DECLARE_CSTL_VECTOR(g_s24, struct s24);
static DECLARE_CSTL_VECTOR(g_s64, struct s64);
static struct cstl_vector g_s3 = CSTL_VECTOR_INITIALIZER(struct s3);

static struct model MA, MB;

int main(void)
{
    struct rlimit rl;
    size_t es;
    int xt;

    rl.rlim_cur = rl.rlim_max = 0;
    setrlimit(RLIMIT_CORE, &rl);

    cstl_vector_init(&aux_vec, 1);

    /* every element size, every combination of constructor/destructor */
    for (es = 1; es <= MAXES; es++) {
        for (xt = 0; xt < 4; xt++) {
            struct cstl_vector a, b;
            const size_t es2 = (es * 7 + (size_t)xt * 13) % MAXES + 1;
            const int xt2 = (xt + (int)(es % 4)) % 4;

            m_init(&MA, &a, es, xt, 1, 1);
            m_init(&MB, &b, es2, xt2, 2, 1);
            run(&a, &MA, &b, &MB, 700, 6);
        }
    }

    /* statically initialised vectors of real types */
    {
        DECLARE_CSTL_VECTOR(l_int, int);
        DECLARE_CSTL_VECTOR(l_ptr, void *);
        struct { struct cstl_vector * v; size_t es; } tv[10];
        unsigned int i;

        tv[0].v = &g_u8;  tv[0].es = sizeof(uint8_t);
        tv[1].v = &g_u16; tv[1].es = sizeof(uint16_t);
        tv[2].v = &g_u32; tv[2].es = sizeof(uint32_t);
        tv[3].v = &g_u64; tv[3].es = sizeof(uint64_t);
        tv[4].v = &g_ld;  tv[4].es = sizeof(long double);
        tv[5].v = &g_s24; tv[5].es = sizeof(struct s24);
        tv[6].v = &g_s64; tv[6].es = sizeof(struct s64);
        tv[7].v = &g_s3;  tv[7].es = sizeof(struct s3);
        tv[8].v = &l_int; tv[8].es = sizeof(int);
        tv[9].v = &l_ptr; tv[9].es = sizeof(void *);

        for (i = 0; i < 10; i += 2) {
            m_init(&MA, tv[i].v, tv[i].es, 0, 1, 0);
            m_init(&MB, tv[i + 1].v, tv[i + 1].es, 0, 2, 0);
            run(tv[i].v, &MA, tv[i + 1].v, &MB, 3000, 12);
        }
    }

    cstl_vector_clear(&aux_vec);

    printf("C09 test passed: %lu checks\n", checks);
    return 0;
}
