/*
 * C07: the heap always yields a maximum element.
 *
 * Standalone test, public API of cstl/heap.h only. Everything is checked
 * against a model kept by the test itself (membership flags and a
 * multiset of priorities); nothing about the inside of the heap or of
 * its nodes is looked at.
 */
#include "cstl/heap.h"

#include <limits.h>
#include <stddef.h>
#include <stdio.h>
#include <stdlib.h>
#include <string.h>

#define CHECK(C)                                                        \
    do {                                                                \
        if (!(C)) {                                                     \
            fprintf(stderr, "%s:%d: check failed: %s\n",                \
                    __FILE__, __LINE__, #C);                            \
            exit(1);                                                    \
        }                                                               \
    } while (0)

/* ------------------------------------------------------------------ */
/* a small deterministic generator */

static unsigned long long rng_state;

static void rng_seed(const unsigned long long s)
{
    rng_state = s * 6364136223846793005ULL + 1442695040888963407ULL;
}

static unsigned int rng(void)
{
    rng_state = rng_state * 6364136223846793005ULL + 1442695040888963407ULL;
    return (unsigned int)(rng_state >> 33);
}

/* ------------------------------------------------------------------ */
/* element types; the heap node sits at different places in each */

struct item
{
    char tag;
    int pri;
    struct cstl_heap_node hn;
    int in;             /* model: is the element in the heap */
    unsigned int id;
};

struct wide
{
    struct cstl_heap_node hn;   /* node first */
    double weight;
    int in;
};

struct dual
{
    long key;
    struct cstl_heap_node by_max;
    char pad[3];
    struct cstl_heap_node by_min;
    int in_max, in_min;
};

static unsigned long cmp_calls;

static int cmp_item(const void * const a, const void * const b, void * const p)
{
    const struct item * const x = a, * const y = b;
    (void)p;
    cmp_calls++;
    /* both arguments must be live elements of the heap */
    CHECK(x->in == 1 && y->in == 1);
    return (x->pri > y->pri) - (x->pri < y->pri);
}

/* direction taken from the private pointer */
static int cmp_item_dir(const void * const a, const void * const b,
                        void * const p)
{
    const struct item * const x = a, * const y = b;
    const int dir = *(const int *)p;
    cmp_calls++;
    return dir * ((x->pri > y->pri) - (x->pri < y->pri));
}

static int cmp_wide(const void * const a, const void * const b, void * const p)
{
    const struct wide * const x = a, * const y = b;
    (void)p;
    return (x->weight > y->weight) - (x->weight < y->weight);
}

static int cmp_dual_max(const void * const a, const void * const b,
                        void * const p)
{
    const struct dual * const x = a, * const y = b;
    (void)p;
    return (x->key > y->key) - (x->key < y->key);
}

static int cmp_dual_min(const void * const a, const void * const b,
                        void * const p)
{
    return -cmp_dual_max(a, b, p);
}

/* ------------------------------------------------------------------ */
/* model for heaps of struct item: membership flag + list of members */

struct model
{
    struct item ** memb;
    size_t n, cap;
};

static void model_init(struct model * const m, const size_t cap)
{
    m->memb = malloc((cap + 1) * sizeof(*m->memb));
    CHECK(m->memb != NULL);
    m->n = 0;
    m->cap = cap;
}

static void model_free(struct model * const m)
{
    free(m->memb);
    m->memb = NULL;
}

static void model_add(struct model * const m, struct item * const it)
{
    CHECK(m->n < m->cap);
    CHECK(it->in == 0);
    it->in = 1;
    m->memb[m->n++] = it;
}

static void model_del(struct model * const m, struct item * const it)
{
    size_t i;
    CHECK(it->in == 1);
    for (i = 0; i < m->n && m->memb[i] != it; i++)
        ;
    CHECK(i < m->n);
    m->memb[i] = m->memb[--m->n];
    it->in = 0;
}

static int model_max(const struct model * const m, const int dir)
{
    size_t i;
    int best;
    CHECK(m->n > 0);
    best = m->memb[0]->pri;
    for (i = 1; i < m->n; i++) {
        if (dir > 0 ? m->memb[i]->pri > best : m->memb[i]->pri < best) {
            best = m->memb[i]->pri;
        }
    }
    return best;
}

/* the top must be a member that is >= every other member */
static void check_top(const struct cstl_heap * const h,
                      const struct model * const m, const int dir)
{
    const struct item * const top = cstl_heap_get(h);

    CHECK(cstl_heap_size(h) == m->n);
    if (m->n == 0) {
        CHECK(top == NULL);
    } else {
        CHECK(top != NULL);
        CHECK(top->in == 1);
        CHECK(top->pri == model_max(m, dir));
        /* get is idempotent and does not change the size */
        CHECK(cstl_heap_get(h) != NULL);
        CHECK(((const struct item *)cstl_heap_get(h))->pri == top->pri);
        CHECK(cstl_heap_size(h) == m->n);
    }
}

static void do_push(struct cstl_heap * const h, struct model * const m,
                    struct item * const it, const int dir)
{
    const char tag = it->tag;
    const int pri = it->pri;
    const unsigned int id = it->id;

    model_add(m, it);
    cstl_heap_push(h, it);
    CHECK(it->tag == tag && it->pri == pri && it->id == id && it->in == 1);
    check_top(h, m, dir);
}

static struct item * do_pop(struct cstl_heap * const h, struct model * const m,
                            const int dir)
{
    struct item * it;

    if (m->n == 0) {
        CHECK(cstl_heap_pop(h) == NULL);
        CHECK(cstl_heap_get(h) == NULL);
        CHECK(cstl_heap_size(h) == 0);
        return NULL;
    } else {
        const int want = model_max(m, dir);
        it = cstl_heap_pop(h);
        CHECK(it != NULL);
        CHECK(it->in == 1);
        CHECK(it->pri == want);
        model_del(m, it);
        check_top(h, m, dir);
    }

    return it;
}

static unsigned int ilog2(size_t n)
{
    unsigned int l = 0;
    while (n > 1) {
        n >>= 1;
        l++;
    }
    return l;
}

/* ------------------------------------------------------------------ */
/* 1. every push/pop sequence up to a given length, 3 priorities */

#define EX_LEN 10

static void exhaustive(void)
{
    static struct item pool[EX_LEN];
    unsigned long seq, nseq = 1;
    unsigned int i;

    for (i = 0; i < EX_LEN; i++) {
        nseq *= 4;
    }

    for (seq = 0; seq < nseq; seq++) {
        DECLARE_CSTL_HEAP(h, struct item, hn, cmp_item, NULL);
        struct item * memb[EX_LEN + 1];
        struct model m;
        unsigned long s = seq;
        unsigned int used = 0;

        m.memb = memb;
        m.n = 0;
        m.cap = EX_LEN;

        memset(pool, 0xa5, sizeof(pool));
        for (i = 0; i < EX_LEN; i++) {
            pool[i].in = 0;
        }

        CHECK(cstl_heap_size(&h) == 0);
        CHECK(cstl_heap_get(&h) == NULL);

        for (i = 0; i < EX_LEN; i++, s /= 4) {
            const unsigned int op = s % 4;

            if (op == 3) {
                struct item * const it = do_pop(&h, &m, 1);
                if (it != NULL) {
                    /* a popped element is the caller's again */
                    memset(&it->hn, 0x5a, sizeof(it->hn));
                }
            } else {
                struct item * const it = &pool[used++];
                it->tag = 't';
                it->pri = (int)op;
                it->id = used;
                do_push(&h, &m, it, 1);
            }
        }

        /* drain: non-increasing, everything comes out exactly once */
        {
            int last = INT_MAX;
            while (m.n > 0) {
                struct item * const it = do_pop(&h, &m, 1);
                CHECK(it->pri <= last);
                last = it->pri;
            }
            do_pop(&h, &m, 1);
        }
    }
}

/* ------------------------------------------------------------------ */
/* 2. shapes around every size up to 70, several orders of priorities */

static void small_sizes(void)
{
    static struct item pool[80];
    unsigned int n, pat, i;

    for (n = 0; n <= 70; n++) {
        for (pat = 0; pat < 6; pat++) {
            struct cstl_heap h;
            struct model m;
            int last = INT_MAX;

            cstl_heap_init(&h, cmp_item, NULL, offsetof(struct item, hn));
            model_init(&m, n);
            memset(pool, 0, sizeof(pool));

            for (i = 0; i < n; i++) {
                struct item * const it = &pool[i];
                switch (pat) {
                case 0: it->pri = (int)i; break;                /* ascending */
                case 1: it->pri = (int)(n - i); break;          /* descending */
                case 2: it->pri = 7; break;                     /* all equal */
                case 3: it->pri = (int)(i % 2); break;          /* two values */
                case 4: it->pri = (int)((i * 37) % 11); break;  /* scattered */
                default:
                    it->pri = (i % 3 == 0) ? INT_MAX
                        : (i % 3 == 1) ? INT_MIN : 0;           /* extremes */
                    break;
                }
                it->id = i;
                do_push(&h, &m, it, 1);
            }

            /* pop half, push them back negated, then drain */
            for (i = 0; i < n / 2; i++) {
                struct item * const it = do_pop(&h, &m, 1);
                CHECK(it->pri <= last);
                last = it->pri;
                it->in = 2; /* parked */
            }
            for (i = 0; i < n; i++) {
                if (pool[i].in == 2) {
                    pool[i].in = 0;
                    if (pool[i].pri != INT_MIN) {
                        pool[i].pri = -pool[i].pri;
                    }
                    do_push(&h, &m, &pool[i], 1);
                }
            }
            last = INT_MAX;
            while (m.n > 0) {
                struct item * const it = do_pop(&h, &m, 1);
                CHECK(it->pri <= last);
                last = it->pri;
            }
            do_pop(&h, &m, 1);
            do_pop(&h, &m, 1);

            model_free(&m);
        }
    }
}

/* ------------------------------------------------------------------ */
/* 3. long random interleavings on larger heaps, counting multiset model */

#define RND_RANGE 64

static void random_large(const unsigned long long seed, const size_t cap,
                         const unsigned long nops, const int range,
                         const int dir_in)
{
    static int dir;
    struct cstl_heap h;
    struct item * const pool = calloc(cap, sizeof(*pool));
    struct item ** const freel = malloc(cap * sizeof(*freel));
    unsigned long count[RND_RANGE];
    size_t nfree = cap, n = 0, i;
    unsigned long op;
    unsigned int bias = 60;

    CHECK(pool != NULL && freel != NULL);
    CHECK(range <= RND_RANGE);
    memset(count, 0, sizeof(count));
    for (i = 0; i < cap; i++) {
        freel[i] = &pool[i];
    }

    dir = dir_in;
    cstl_heap_init(&h, cmp_item_dir, &dir, offsetof(struct item, hn));
    rng_seed(seed);

    for (op = 0; op < nops; op++) {
        /* drift between filling and draining phases */
        if (op % 4096 == 0) {
            bias = 25 + rng() % 55;
        }

        if (nfree > 0 && (n == 0 ? rng() % 8 != 0 : rng() % 100 < bias)) {
            struct item * const it = freel[--nfree];
            const unsigned long before = cmp_calls;

            it->pri = (int)(rng() % (unsigned int)range);
            it->in = 1;
            it->id = (unsigned int)op;
            count[it->pri]++;
            n++;
            cstl_heap_push(&h, it);
            /* documented O(log n); generous constant */
            CHECK(cmp_calls - before <= 8ul * (ilog2(n) + 2));
        } else {
            struct item * const g = (struct item *)cstl_heap_get(&h);
            const unsigned long before = cmp_calls;
            struct item * const it = cstl_heap_pop(&h);

            if (n == 0) {
                CHECK(it == NULL && g == NULL);
            } else {
                int best;

                if (dir > 0) {
                    for (best = range - 1; count[best] == 0; best--)
                        ;
                } else {
                    for (best = 0; count[best] == 0; best++)
                        ;
                }
                CHECK(g != NULL && g->in == 1 && g->pri == best);
                CHECK(it != NULL && it->in == 1 && it->pri == best);
                CHECK(cmp_calls - before <= 8ul * (ilog2(n) + 2));
                it->in = 0;
                count[best]--;
                n--;
                freel[nfree++] = it;
                /* the node memory belongs to the caller again */
                memset(&it->hn, (int)(op & 0xff), sizeof(it->hn));
            }
        }

        CHECK(cstl_heap_size(&h) == n);
        if (n == 0) {
            CHECK(cstl_heap_get(&h) == NULL);
        }
    }

    /* drain in order */
    {
        int last = dir > 0 ? INT_MAX : INT_MIN;
        while (n > 0) {
            struct item * const it = cstl_heap_pop(&h);
            CHECK(it != NULL && it->in == 1);
            CHECK(dir > 0 ? it->pri <= last : it->pri >= last);
            last = it->pri;
            CHECK(count[it->pri] > 0);
            count[it->pri]--;
            it->in = 0;
            n--;
            CHECK(cstl_heap_size(&h) == n);
        }
        CHECK(cstl_heap_pop(&h) == NULL);
        CHECK(cstl_heap_get(&h) == NULL);
        for (i = 0; i < (size_t)range; i++) {
            CHECK(count[i] == 0);
        }
    }

    free(freel);
    free(pool);
}

/* ------------------------------------------------------------------ */
/* 4. saw-tooth around powers of two (level boundaries of the tree) */

static void level_boundaries(void)
{
    const size_t cap = (1u << 12) + 8;
    struct item * const pool = calloc(cap, sizeof(*pool));
    struct cstl_heap h;
    struct model m;
    size_t used = 0;
    unsigned int k;

    CHECK(pool != NULL);
    cstl_heap_init(&h, cmp_item, NULL, offsetof(struct item, hn));
    model_init(&m, cap);
    rng_seed(77);

    for (k = 0; k <= 12; k++) {
        const size_t target = ((size_t)1 << k) + 2;
        unsigned int j;

        while (m.n < target) {
            struct item * const it = &pool[used++];
            it->pri = (int)(rng() % 16);
            model_add(&m, it);
            cstl_heap_push(&h, it);
            CHECK(cstl_heap_size(&h) == m.n);
        }
        check_top(&h, &m, 1);

        /* wobble over the boundary 2^k - 1 .. 2^k + 2 */
        for (j = 0; j < 6; j++) {
            struct item * popped[4];
            unsigned int c;
            for (c = 0; c < 4; c++) {
                popped[c] = do_pop(&h, &m, 1);
                if (c > 0 && popped[c] != NULL && popped[c - 1] != NULL) {
                    CHECK(popped[c]->pri <= popped[c - 1]->pri);
                }
            }
            for (c = 0; c < 4; c++) {
                if (popped[c] != NULL) {
                    popped[c]->pri = (int)(rng() % 16);
                    do_push(&h, &m, popped[c], 1);
                }
            }
        }
    }

    {
        int last = INT_MAX;
        while (m.n > 0) {
            struct item * const it = do_pop(&h, &m, 1);
            CHECK(it->pri <= last);
            last = it->pri;
        }
    }

    model_free(&m);
    free(pool);
}

/* ------------------------------------------------------------------ */
/* 5. a comparison function that works with ANOTHER heap while running,
 *    a second element type, and elements living in two heaps at once */

static DECLARE_CSTL_HEAP(side_heap, struct wide, hn, cmp_wide, NULL);
static struct wide side_pool[8];
static unsigned int side_next;

static int cmp_item_busy(const void * const a, const void * const b,
                         void * const p)
{
    const struct item * const x = a, * const y = b;
    struct wide * w;
    (void)p;

    /* churn the other heap: make sure w is out of it, then push it */
    w = &side_pool[side_next++ % 8];
    while (w->in) {
        struct wide * const u = cstl_heap_pop(&side_heap);
        CHECK(u != NULL && u->in);
        u->in = 0;
    }
    w->weight = (double)(x->pri - y->pri) / 3.0;
    w->in = 1;
    cstl_heap_push(&side_heap, w);
    {
        const struct wide * const top = cstl_heap_get(&side_heap);
        unsigned int i;
        CHECK(top != NULL && top->in);
        for (i = 0; i < 8; i++) {
            if (side_pool[i].in) {
                CHECK(top->weight >= side_pool[i].weight);
            }
        }
    }

    return (x->pri > y->pri) - (x->pri < y->pri);
}

static void other_containers(void)
{
    static struct item pool[300];
    static struct dual duals[200];
    static struct cstl_heap hmax =
        CSTL_HEAP_INITIALIZER(struct dual, by_max, cmp_dual_max, NULL);
    struct cstl_heap hmin;
    DECLARE_CSTL_HEAP(h, struct item, hn, cmp_item_busy, NULL);
    struct model m;
    unsigned int i;
    size_t nmax = 0, nmin = 0;

    cstl_heap_init(&hmin, cmp_dual_min, NULL, offsetof(struct dual, by_min));
    model_init(&m, 300);
    rng_seed(4242);

    for (i = 0; i < 3000; i++) {
        if (m.n < 300 && rng() % 5 < 3) {
            size_t j;
            for (j = 0; pool[j].in; j++)
                ;
            pool[j].pri = (int)(rng() % 9) - 4;
            do_push(&h, &m, &pool[j], 1);
        } else {
            do_pop(&h, &m, 1);
        }
    }
    while (m.n > 0) {
        do_pop(&h, &m, 1);
    }
    model_free(&m);

    /* every dual is in both heaps; one orders by max, the other by min */
    for (i = 0; i < 200; i++) {
        duals[i].key = (long)(rng() % 50) - 25;
        if (i % 50 == 0) {
            duals[i].key = i % 100 == 0 ? LONG_MAX : LONG_MIN;
        }
        duals[i].in_max = duals[i].in_min = 1;
        cstl_heap_push(&hmax, &duals[i]);
        cstl_heap_push(&hmin, &duals[i]);
        nmax++;
        nmin++;
        CHECK(cstl_heap_size(&hmax) == nmax && cstl_heap_size(&hmin) == nmin);
    }
    for (i = 0; i < 200; i++) {
        struct dual * d;
        unsigned int j;
        long best;

        if (i % 2 == 0) {
            d = cstl_heap_pop(&hmax);
            CHECK(d != NULL && d->in_max);
            best = LONG_MIN;
            for (j = 0; j < 200; j++) {
                if (duals[j].in_max && duals[j].key > best) {
                    best = duals[j].key;
                }
            }
            CHECK(d->key == best);
            d->in_max = 0;
            nmax--;
        } else {
            d = cstl_heap_pop(&hmin);
            CHECK(d != NULL && d->in_min);
            best = LONG_MAX;
            for (j = 0; j < 200; j++) {
                if (duals[j].in_min && duals[j].key < best) {
                    best = duals[j].key;
                }
            }
            CHECK(d->key == best);
            d->in_min = 0;
            nmin--;
        }
        CHECK(cstl_heap_size(&hmax) == nmax && cstl_heap_size(&hmin) == nmin);
    }
    {
        long last = LONG_MAX;
        struct dual * d;
        while ((d = cstl_heap_pop(&hmax)) != NULL) {
            CHECK(d->in_max && d->key <= last);
            last = d->key;
            d->in_max = 0;
            nmax--;
        }
        last = LONG_MIN;
        while ((d = cstl_heap_pop(&hmin)) != NULL) {
            CHECK(d->in_min && d->key >= last);
            last = d->key;
            d->in_min = 0;
            nmin--;
        }
        CHECK(nmax == 0 && nmin == 0);
    }
}

/* ------------------------------------------------------------------ */
/* 6. clear and swap keep the property */

static unsigned int clr_calls;

static void clr_item(void * const e, void * const p)
{
    struct item * const it = e;
    (void)p;
    CHECK(it->in == 1);
    it->in = 0;
    clr_calls++;
    /* the callee owns the element now */
    memset(&it->hn, 0xee, sizeof(it->hn));
}

static void clear_and_swap(void)
{
    static struct item pa[130], pb[130];
    unsigned int na, nb, i;

    for (na = 0; na <= 129; na += (na < 10 ? 1 : 17)) {
        for (nb = 0; nb <= 129; nb += (nb < 6 ? 1 : 41)) {
            DECLARE_CSTL_HEAP(a, struct item, hn, cmp_item, NULL);
            struct cstl_heap b;
            struct model ma, mb, t;

            cstl_heap_init(&b, cmp_item, NULL, offsetof(struct item, hn));
            model_init(&ma, 140);
            model_init(&mb, 140);
            memset(pa, 0, sizeof(pa));
            memset(pb, 0, sizeof(pb));
            rng_seed(na * 131 + nb);

            for (i = 0; i < na; i++) {
                pa[i].pri = (int)(rng() % 7);
                do_push(&a, &ma, &pa[i], 1);
            }
            for (i = 0; i < nb; i++) {
                pb[i].pri = 100 + (int)(rng() % 7);
                do_push(&b, &mb, &pb[i], 1);
            }

            cstl_heap_swap(&a, &b);
            t = ma; ma = mb; mb = t;
            check_top(&a, &ma, 1);
            check_top(&b, &mb, 1);

            /* both keep working after the swap */
            for (i = 0; i < 5; i++) {
                do_pop(&a, &ma, 1);
                do_pop(&b, &mb, 1);
            }
            if (na < 129) {
                pa[129].pri = 3;
                do_push(&b, &mb, &pa[129], 1);
            }
            if (nb < 129) {
                pb[129].pri = 103;
                do_push(&a, &ma, &pb[129], 1);
            }

            /* clear one, drain the other */
            clr_calls = 0;
            cstl_heap_clear(&a, clr_item);
            CHECK(clr_calls == ma.n);
            ma.n = 0;
            check_top(&a, &ma, 1);
            CHECK(cstl_heap_pop(&a) == NULL);

            /* a cleared heap is as good as new */
            for (i = 0; i < 129; i++) {
                if (!pa[i].in && !pb[i].in) {
                    pb[i].pri = (int)(rng() % 5);
                    do_push(&a, &ma, &pb[i], 1);
                }
            }
            while (ma.n > 0) {
                do_pop(&a, &ma, 1);
            }
            {
                int last = INT_MAX;
                while (mb.n > 0) {
                    struct item * const it = do_pop(&b, &mb, 1);
                    CHECK(it->pri <= last);
                    last = it->pri;
                }
            }
            clr_calls = 0;
            cstl_heap_clear(&b, clr_item);      /* empty: no calls */
            CHECK(clr_calls == 0);
            CHECK(cstl_heap_size(&b) == 0);

            model_free(&ma);
            model_free(&mb);
        }
    }
}

/* ------------------------------------------------------------------ */
/* 7. sorting by heap: output is the sorted permutation of the input */

static int cmp_int(const void * const a, const void * const b)
{
    const int x = *(const int *)a, y = *(const int *)b;
    return (x < y) - (x > y);   /* descending */
}

static void heap_sort(const unsigned long long seed, const size_t n,
                      const unsigned int range)
{
    struct wide * const pool = calloc(n + 1, sizeof(*pool));
    int * const ref = malloc((n + 1) * sizeof(*ref));
    DECLARE_CSTL_HEAP(h, struct wide, hn, cmp_wide, NULL);
    size_t i;

    CHECK(pool != NULL && ref != NULL);
    rng_seed(seed);
    for (i = 0; i < n; i++) {
        ref[i] = (int)(rng() % range) - (int)(range / 2);
        pool[i].weight = ref[i];
        pool[i].in = 1;
        cstl_heap_push(&h, &pool[i]);
        CHECK(cstl_heap_size(&h) == i + 1);
    }
    qsort(ref, n, sizeof(*ref), cmp_int);
    for (i = 0; i < n; i++) {
        const struct wide * const g = cstl_heap_get(&h);
        struct wide * const w = cstl_heap_pop(&h);
        CHECK(g != NULL && g->weight == (double)ref[i]);
        CHECK(w != NULL && w->in == 1);
        CHECK(w->weight == (double)ref[i]);
        w->in = 0;
        CHECK(cstl_heap_size(&h) == n - i - 1);
    }
    CHECK(cstl_heap_pop(&h) == NULL);
    CHECK(cstl_heap_get(&h) == NULL);

    free(ref);
    free(pool);
}

/* ------------------------------------------------------------------ */
/* 8. elements migrate between heaps without the caller touching the
 *    node in between: pop from one, push straight into the other (or
 *    back into the same one) */

static void migration(void)
{
    static struct item pool[600];
    static int up = 1, down = -1;
    DECLARE_CSTL_HEAP(hi, struct item, hn, cmp_item_dir, &up);
    struct cstl_heap lo;
    struct model mhi, mlo;
    unsigned int i, round;

    cstl_heap_init(&lo, cmp_item_dir, &down, offsetof(struct item, hn));
    model_init(&mhi, 600);
    model_init(&mlo, 600);
    memset(pool, 0, sizeof(pool));
    rng_seed(31337);

    for (i = 0; i < 600; i++) {
        pool[i].pri = (int)(rng() % 40) - 20;
        pool[i].id = i;
        if (i % 2) {
            do_push(&hi, &mhi, &pool[i], 1);
        } else {
            do_push(&lo, &mlo, &pool[i], -1);
        }
    }

    for (round = 0; round < 20000; round++) {
        const unsigned int r = rng() % 6;
        struct item * it;

        switch (r) {
        case 0: /* greatest of hi goes to lo */
            it = do_pop(&hi, &mhi, 1);
            if (it != NULL) {
                do_push(&lo, &mlo, it, -1);
            }
            break;
        case 1: /* least of lo goes to hi */
            it = do_pop(&lo, &mlo, -1);
            if (it != NULL) {
                do_push(&hi, &mhi, it, 1);
            }
            break;
        case 2: /* straight back in, same priority */
            it = do_pop(&hi, &mhi, 1);
            if (it != NULL) {
                do_push(&hi, &mhi, it, 1);
                CHECK(((const struct item *)cstl_heap_get(&hi))->pri
                      == it->pri);
            }
            break;
        case 3: /* straight back in, lowered to the bottom */
            it = do_pop(&hi, &mhi, 1);
            if (it != NULL) {
                it->pri = -1000 - (int)(rng() % 3);
                do_push(&hi, &mhi, it, 1);
            }
            break;
        case 4: /* two out, back in the other order */
            it = do_pop(&lo, &mlo, -1);
            if (it != NULL) {
                struct item * const it2 = do_pop(&lo, &mlo, -1);
                if (it2 != NULL) {
                    CHECK(it2->pri >= it->pri);
                    do_push(&lo, &mlo, it2, -1);
                }
                do_push(&lo, &mlo, it, -1);
            }
            break;
        default: /* swap the heaps themselves every now and then */
            if (rng() % 50 == 0) {
                /* both order by the private int; exchange roles */
                struct model t;
                cstl_heap_swap(&hi, &lo);
                t = mhi; mhi = mlo; mlo = t;
                check_top(&hi, &mhi, -1);
                check_top(&lo, &mlo, 1);
                cstl_heap_swap(&lo, &hi);
                t = mhi; mhi = mlo; mlo = t;
                check_top(&hi, &mhi, 1);
                check_top(&lo, &mlo, -1);
            }
            break;
        }
        CHECK(mhi.n + mlo.n == 600);
    }

    {
        int last = INT_MAX;
        while (mhi.n > 0) {
            struct item * const it = do_pop(&hi, &mhi, 1);
            CHECK(it->pri <= last);
            last = it->pri;
        }
        last = INT_MIN;
        while (mlo.n > 0) {
            struct item * const it = do_pop(&lo, &mlo, -1);
            CHECK(it->pri >= last);
            last = it->pri;
        }
    }
    do_pop(&hi, &mhi, 1);
    do_pop(&lo, &mlo, -1);

    model_free(&mhi);
    model_free(&mlo);
}

int main(void)
{
    unsigned int s;

    exhaustive();
    small_sizes();
    level_boundaries();

    for (s = 1; s <= 6; s++) {
        random_large(s, 50, 40000, 3, 1);
        random_large(100 + s, 700, 60000, 8, s % 2 ? 1 : -1);
        random_large(200 + s, 9000, 120000, RND_RANGE, 1);
    }
    random_large(999, 70000, 400000, 2, -1);

    other_containers();
    clear_and_swap();
    migration();

    for (s = 0; s < 40; s++) {
        heap_sort(s, (size_t)s * 53 % 1500 + (s < 5 ? s : 100), s % 3 ? 1000 : 4);
    }
    heap_sort(12345, 100000, 1000000);

    printf("ok (%lu comparisons)\n", cmp_calls);
    return 0;
}
