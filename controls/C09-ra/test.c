/*
 * C09: a vector never reports size or capacity it has no storage for.
 *
 * Standalone model-based test that only uses the public vector API.
 *
 * The program supplies its own malloc/realloc/free (on top of glibc's
 * __libc_* entry points) so that it can
 *   - see every live allocation and its exact size,
 *   - put canaries in front of and behind every block,
 *   - make realloc() ALWAYS move the block and poison the old one,
 *   - refuse any request above 64MiB (so "huge but representable" requests
 *     fail the way they would on a small machine), and
 *   - inject allocation failures on demand.
 *
 * Every step is checked against a byte-exact reference model; operations
 * that have to abort are run in a forked child and must die of SIGABRT.
 */
#define _POSIX_C_SOURCE 200809L

#include "cstl/vector.h"

#include <stdio.h>
#include <stdlib.h>
#include <string.h>
#include <stdint.h>
#include <signal.h>
#include <unistd.h>
#include <sys/types.h>
#include <sys/wait.h>
#include <sys/resource.h>

/* ------------------------------------------------------------------ */
/* the allocator                                                       */
/* ------------------------------------------------------------------ */

extern void * __libc_malloc(size_t);
extern void __libc_free(void *);

#define TM_LIMIT   ((size_t)64 << 20)
#define TM_MAGIC   ((size_t)0x5ca1ab1e0ddba11u)
#define TM_DEAD    ((size_t)0xdeadbeefdeadbeefu)
#define TM_CANARY  16

struct tm_hdr
{
    struct tm_hdr * prev, * next;
    size_t size;
    size_t magic;
    unsigned char pre[TM_CANARY];
};

static struct tm_hdr tm_head = { &tm_head, &tm_head, 0, 0, { 0 } };
static size_t tm_live;
static int tm_fail;          /* fail every request made outside callbacks */
static int tm_in_callback;
static unsigned long tm_fail_hits, tm_allocs, tm_frees;

static void tm_die(const char * const msg)
{
    size_t n = strlen(msg);
    if (write(2, "allocator: ", 11) < 0 || write(2, msg, n) < 0
        || write(2, "\n", 1) < 0) {
        /* nothing to do about it */
    }
    _exit(42);
}

static unsigned char * tm_user(struct tm_hdr * const h)
{
    return (unsigned char *)(h + 1);
}

static void tm_verify(struct tm_hdr * const h)
{
    size_t i;
    const unsigned char * post;

    if (h->magic != TM_MAGIC) {
        tm_die("bad magic (free/realloc of a pointer that is not a live block)");
    }
    post = tm_user(h) + h->size;
    for (i = 0; i < TM_CANARY; i++) {
        if (h->pre[i] != 0xfd) {
            tm_die("write in front of a block");
        }
        if (post[i] != 0xfb) {
            tm_die("write behind a block");
        }
    }
}

static void * tm_alloc(const size_t size)
{
    struct tm_hdr * h;

    if (size > TM_LIMIT) {
        return NULL;
    }
    if (tm_fail && tm_in_callback == 0) {
        tm_fail_hits++;
        return NULL;
    }

    h = __libc_malloc(sizeof(*h) + size + TM_CANARY);
    if (h == NULL) {
        return NULL;
    }
    h->size = size;
    h->magic = TM_MAGIC;
    memset(h->pre, 0xfd, TM_CANARY);
    memset(tm_user(h), 0xa5, size);
    memset(tm_user(h) + size, 0xfb, TM_CANARY);

    h->next = &tm_head;
    h->prev = tm_head.prev;
    h->prev->next = h;
    h->next->prev = h;
    tm_live++;
    tm_allocs++;

    return tm_user(h);
}

static void tm_free(void * const p)
{
    struct tm_hdr * h;

    if (p == NULL) {
        return;
    }
    h = (struct tm_hdr *)p - 1;
    tm_verify(h);
    h->prev->next = h->next;
    h->next->prev = h->prev;
    tm_live--;
    tm_frees++;
    memset(tm_user(h), 0xdd, h->size + TM_CANARY);
    h->magic = TM_DEAD;
    __libc_free(h);
}

void * malloc(size_t size)
{
    return tm_alloc(size);
}

void free(void * p)
{
    tm_free(p);
}

void * calloc(size_t n, size_t size)
{
    void * p;

    if (size != 0 && n > SIZE_MAX / size) {
        return NULL;
    }
    p = tm_alloc(n * size);
    if (p != NULL) {
        memset(p, 0, n * size);
    }
    return p;
}

void * realloc(void * p, size_t size)
{
    struct tm_hdr * h;
    void * n;

    if (p == NULL) {
        return tm_alloc(size);
    }
    h = (struct tm_hdr *)p - 1;
    tm_verify(h);

    /* always move; the old block is poisoned and released */
    n = tm_alloc(size);
    if (n == NULL) {
        return NULL;
    }
    memcpy(n, p, h->size < size ? h->size : size);
    tm_free(p);
    return n;
}

/* nothing in this program may need these */
int posix_memalign(void ** p, size_t a, size_t s)
{
    (void)p; (void)a; (void)s;
    tm_die("posix_memalign not supported");
    return -1;
}
void * aligned_alloc(size_t a, size_t s)
{
    (void)a; (void)s;
    tm_die("aligned_alloc not supported");
    return NULL;
}
void * memalign(size_t a, size_t s)
{
    (void)a; (void)s;
    tm_die("memalign not supported");
    return NULL;
}

/* the live block that contains @p, or NULL */
static struct tm_hdr * tm_find(const void * const p)
{
    struct tm_hdr * h;
    const uintptr_t a = (uintptr_t)p;

    for (h = tm_head.next; h != &tm_head; h = h->next) {
        const uintptr_t b = (uintptr_t)tm_user(h);
        if (a >= b && a - b <= h->size) {
            return h;
        }
    }
    return NULL;
}

/* ------------------------------------------------------------------ */
/* failure reporting                                                   */
/* ------------------------------------------------------------------ */

static const char * g_where = "";
static unsigned long g_step;
static int g_in_child;

#define FAIL(...)                                                       \
    do {                                                                \
        if (g_in_child) {                                               \
            _exit(7);                                                   \
        }                                                               \
        fprintf(stderr, "FAIL %s:%d [%s step %lu]: ",                   \
                __FILE__, __LINE__, g_where, g_step);                   \
        fprintf(stderr, __VA_ARGS__);                                   \
        fprintf(stderr, "\n");                                          \
        exit(1);                                                        \
    } while (0)

#define CHECK(COND, ...)                        \
    do {                                        \
        if (!(COND)) {                          \
            FAIL(__VA_ARGS__);                  \
        }                                       \
    } while (0)

/* ------------------------------------------------------------------ */
/* random numbers                                                      */
/* ------------------------------------------------------------------ */

static uint64_t g_rng = 88172645463325252ull;

static uint64_t rnd(void)
{
    g_rng ^= g_rng << 13;
    g_rng ^= g_rng >> 7;
    g_rng ^= g_rng << 17;
    return g_rng;
}

/* ------------------------------------------------------------------ */
/* the model                                                           */
/* ------------------------------------------------------------------ */

#define MAXN   80           /* no test vector ever holds more elements */
#define MAXES  64

struct content
{
    /* the vector object that currently holds this content */
    struct cstl_vector * holder;

    size_t es;
    int complex;

    size_t count;
    unsigned char bytes[MAXN * MAXES];
    unsigned char live[MAXN];

    /* callback accounting */
    unsigned long cons_calls, dest_calls;
    size_t lo, hi;          /* indexes a callback may legally see */
    int forbid;             /* callbacks must not run at all */
    unsigned long serial;
};

struct slot
{
    struct cstl_vector * obj;
    struct content * c;
};

/* vectors used from inside the callbacks: other objects, other types */
static DECLARE_CSTL_VECTOR(g_log, size_t);
static DECLARE_CSTL_VECTOR(g_aux, unsigned long);

static void fill_pattern(unsigned char * const p, const size_t es,
                         const unsigned long serial)
{
    size_t i;
    uint64_t x = serial * 0x9e3779b97f4a7c15ull + 0x1234567;
    for (i = 0; i < es; i++) {
        x ^= x << 13; x ^= x >> 7; x ^= x << 17;
        /* few distinct leading bytes, so that sorting sees ties there */
        p[i] = (i == 0) ? (unsigned char)(x % 5) : (unsigned char)(x >> 24);
    }
}

static size_t callback_index(struct content * const c, void * const e)
{
    const unsigned char * const base = cstl_vector_data(c->holder);
    size_t off;

    if (c->forbid) {
        _exit(3);
    }
    CHECK(base != NULL, "callback on a vector without storage");
    CHECK((uintptr_t)e >= (uintptr_t)base, "callback element below the data");
    off = (uintptr_t)e - (uintptr_t)base;
    CHECK(off % c->es == 0, "callback element not on an element boundary");
    off /= c->es;
    CHECK(off >= c->lo && off < c->hi,
          "callback for index %lu outside [%lu,%lu)",
          (unsigned long)off, (unsigned long)c->lo, (unsigned long)c->hi);
    return off;
}

static void log_index(const size_t i)
{
    /* grows another vector, one element at a time, from inside a callback */
    const size_t n = cstl_vector_size(&g_log);
    cstl_vector_resize(&g_log, n + 1);
    *(size_t *)cstl_vector_at(&g_log, n) = i;
}

static void t_cons(void * const e, void * const priv)
{
    struct content * const c = priv;
    size_t i;

    tm_in_callback++;
    i = callback_index(c, e);
    CHECK(!c->live[i], "element %lu constructed twice", (unsigned long)i);
    c->live[i] = 1;
    c->cons_calls++;
    fill_pattern(e, c->es, ++c->serial);
    memcpy(&c->bytes[i * c->es], e, c->es);
    log_index(i);
    tm_in_callback--;
}

static void t_dest(void * const e, void * const priv)
{
    struct content * const c = priv;
    size_t i;

    tm_in_callback++;
    i = callback_index(c, e);
    CHECK(c->live[i], "element %lu destroyed but not alive", (unsigned long)i);
    CHECK(memcmp(e, &c->bytes[i * c->es], c->es) == 0,
          "element %lu changed before its destruction", (unsigned long)i);
    c->live[i] = 0;
    c->dest_calls++;
    memset(e, 0xee, c->es);
    log_index(i);
    tm_in_callback--;
}

static size_t g_cmp_es;

static int t_cmp(const void * const a, const void * const b, void * const p)
{
    (void)p;
    /* use another container from inside the comparator */
    (*(unsigned long *)cstl_vector_at(&g_aux, 0))++;
    return memcmp(a, b, g_cmp_es);
}

static int q_cmp(const void * const a, const void * const b)
{
    return memcmp(a, b, g_cmp_es);
}

static void t_swap(void * const a, void * const b, void * const t,
                   const size_t len)
{
    CHECK(len == g_cmp_es, "swap called with length %lu", (unsigned long)len);
    CHECK(t != NULL && t != a && t != b, "unusable scratch");
    memcpy(t, a, len);
    memcpy(a, b, len);
    memcpy(b, t, len);
    /* scratch is scratch */
    memset(t, 0x77, len);
    (*(unsigned long *)cstl_vector_at(&g_aux, 1))++;
}

/* ------------------------------------------------------------------ */
/* checking a vector against its model                                 */
/* ------------------------------------------------------------------ */

static void check_slot(const struct slot * const s)
{
    struct cstl_vector * const v = s->obj;
    struct content * const c = s->c;
    const size_t size = cstl_vector_size(v);
    const size_t cap = cstl_vector_capacity(v);
    unsigned char * const d = cstl_vector_data(v);
    size_t i;

    CHECK(c->holder == v, "test bookkeeping");
    CHECK(size == c->count, "size %lu, expected %lu",
          (unsigned long)size, (unsigned long)c->count);
    CHECK(cap >= size, "capacity %lu below size %lu",
          (unsigned long)cap, (unsigned long)size);
    CHECK(cap <= MAXN, "capacity %lu was never asked for", (unsigned long)cap);

    if (d == NULL) {
        CHECK(cap == 0, "capacity %lu without storage", (unsigned long)cap);
    } else {
        struct tm_hdr * const h = tm_find(d);
        size_t off;

        CHECK(h != NULL, "data is not inside a live allocation");
        tm_verify(h);
        off = (uintptr_t)d - (uintptr_t)tm_user(h);
        CHECK(h->size / c->es > cap,
              "allocation of %lu bytes cannot hold %lu+1 elements of %lu",
              (unsigned long)h->size, (unsigned long)cap,
              (unsigned long)c->es);
        CHECK((h->size - off) / c->es >= cap,
              "elements [0,%lu) do not fit behind the data pointer",
              (unsigned long)cap);
    }

    for (i = 0; i < size; i++) {
        unsigned char * const p = cstl_vector_at(v, i);
        const unsigned char * const q = cstl_vector_at_const(v, i);
        CHECK(p == d + i * c->es, "at(%lu) is not data + i * size",
              (unsigned long)i);
        CHECK(q == p, "at_const(%lu) differs from at", (unsigned long)i);
        CHECK(memcmp(p, &c->bytes[i * c->es], c->es) == 0,
              "element %lu lost its bytes", (unsigned long)i);
    }

    if (c->complex) {
        for (i = 0; i < MAXN; i++) {
            CHECK(c->live[i] == (i < size),
                  "element %lu: constructed=%d, size %lu",
                  (unsigned long)i, c->live[i], (unsigned long)size);
        }
    }

    /*
     * the storage between size and capacity exists and is the caller's
     * to scribble on; the canaries tell if it does not
     */
    if (cap > size) {
        memset(d + size * c->es, 0xc3, (cap - size) * c->es);
        tm_verify(tm_find(d));
    }
}

/* ------------------------------------------------------------------ */
/* things that must abort                                              */
/* ------------------------------------------------------------------ */

static unsigned long g_forks;

enum abort_op { AB_AT, AB_AT_CONST, AB_RESIZE };

static void expect_abort(const struct slot * const s,
                         const enum abort_op op, const size_t n,
                         const int inject)
{
    pid_t pid;
    int st;

    fflush(stdout);
    fflush(stderr);
    g_forks++;
    pid = fork();
    CHECK(pid >= 0, "fork failed");
    if (pid == 0) {
        g_in_child = 1;
        s->c->forbid = 1;
        tm_fail = inject;
        switch (op) {
        case AB_AT:
            (void)cstl_vector_at(s->obj, n);
            break;
        case AB_AT_CONST:
            (void)cstl_vector_at_const(s->obj, n);
            break;
        case AB_RESIZE:
            cstl_vector_resize(s->obj, n);
            break;
        }
        _exit(0);
    }
    CHECK(waitpid(pid, &st, 0) == pid, "waitpid failed");
    CHECK(WIFSIGNALED(st) && WTERMSIG(st) == SIGABRT,
          "op %d with %lu (es %lu, size %lu, cap %lu, inject %d) did not "
          "abort: status 0x%x",
          (int)op, (unsigned long)n, (unsigned long)s->c->es,
          (unsigned long)cstl_vector_size(s->obj),
          (unsigned long)cstl_vector_capacity(s->obj), inject, st);
}

static void check_at_aborts(const struct slot * const s)
{
    const size_t size = cstl_vector_size(s->obj);
    const size_t cap = cstl_vector_capacity(s->obj);
    const size_t es = s->c->es;
    const size_t m = SIZE_MAX / es;
    size_t idx[12];
    unsigned int i, n = 0;

    idx[n++] = size;
    idx[n++] = size + 1;
    idx[n++] = cap;
    idx[n++] = cap + 1;
    idx[n++] = SIZE_MAX;
    idx[n++] = SIZE_MAX - 1;
    idx[n++] = m;
    /* indexes whose byte offset wraps around to a small one */
    idx[n++] = m + 1;
    idx[n++] = m + 1 + (size > 0 ? size - 1 : 0);
    idx[n++] = SIZE_MAX / 2 + 1;
    idx[n++] = ((size_t)1 << 32) + (size > 0 ? size - 1 : 0);
    idx[n++] = (size_t)1 << 31;

    for (i = 0; i < n; i++) {
        /* the first index past the end always, the others half of the time */
        if (idx[i] >= size && (i == 0 || (rnd() & 1))) {
            expect_abort(s, (rnd() & 1) ? AB_AT : AB_AT_CONST, idx[i], 0);
        }
    }
}

/* ------------------------------------------------------------------ */
/* operations                                                          */
/* ------------------------------------------------------------------ */

struct snap
{
    size_t count, cap;
    void * data;
    unsigned long cons, dest;
};

static struct snap snapshot(const struct slot * const s)
{
    struct snap n;
    n.count = cstl_vector_size(s->obj);
    n.cap = cstl_vector_capacity(s->obj);
    n.data = cstl_vector_data(s->obj);
    n.cons = s->c->cons_calls;
    n.dest = s->c->dest_calls;
    return n;
}

static void expect_untouched(const struct slot * const s,
                             const struct snap * const o,
                             const char * const what)
{
    CHECK(cstl_vector_size(s->obj) == o->count, "%s changed the size", what);
    CHECK(cstl_vector_capacity(s->obj) == o->cap,
          "%s changed the capacity from %lu to %lu", what,
          (unsigned long)o->cap,
          (unsigned long)cstl_vector_capacity(s->obj));
    CHECK(cstl_vector_data(s->obj) == o->data, "%s moved the data", what);
    CHECK(s->c->cons_calls == o->cons && s->c->dest_calls == o->dest,
          "%s ran callbacks", what);
}

static void expect_calls(const struct slot * const s,
                         const struct snap * const o,
                         const unsigned long cons, const unsigned long dest)
{
    struct content * const c = s->c;
    const unsigned long want = c->complex ? cons + dest : 0;

    if (c->complex) {
        CHECK(c->cons_calls - o->cons == cons,
              "%lu constructor calls, expected %lu",
              c->cons_calls - o->cons, cons);
        CHECK(c->dest_calls - o->dest == dest,
              "%lu destructor calls, expected %lu",
              c->dest_calls - o->dest, dest);
    }
    CHECK(cstl_vector_size(&g_log) == want,
          "callback log holds %lu entries, expected %lu",
          (unsigned long)cstl_vector_size(&g_log), want);
    /* keep the log's storage most of the time, drop it sometimes */
    if (rnd() % 4 == 0) {
        cstl_vector_clear(&g_log);
    } else {
        cstl_vector_resize(&g_log, 0);
    }
}

static void op_resize(struct slot * const s, const size_t n, const int inject)
{
    struct content * const c = s->c;
    const struct snap o = snapshot(s);
    size_t i;

    if (n > o.cap && (n > MAXN || inject)) {
        /* cannot be satisfied: abort, before any callback */
        expect_abort(s, AB_RESIZE, n, inject);
        expect_untouched(s, &o, "aborting resize (parent)");
        return;
    }

    c->lo = o.count < n ? o.count : n;
    c->hi = o.count < n ? n : o.count;

    if (n <= o.cap) {
        /* "always succeeds": there is nothing it could need memory for */
        tm_fail = 1;
        cstl_vector_resize(s->obj, n);
        tm_fail = 0;
        CHECK(cstl_vector_capacity(s->obj) == o.cap,
              "resize within capacity changed the capacity");
        CHECK(cstl_vector_data(s->obj) == o.data,
              "resize within capacity moved the data");
    } else {
        cstl_vector_resize(s->obj, n);
        CHECK(cstl_vector_capacity(s->obj) >= n, "resize: capacity too small");
    }
    c->lo = c->hi = 0;

    CHECK(cstl_vector_size(s->obj) == n, "resize: size %lu, expected %lu",
          (unsigned long)cstl_vector_size(s->obj), (unsigned long)n);
    expect_calls(s, &o, n > o.count ? n - o.count : 0,
                 n < o.count ? o.count - n : 0);

    if (!c->complex) {
        /* new elements hold nothing in particular; give them values */
        for (i = o.count; i < n; i++) {
            unsigned char * const p = cstl_vector_at(s->obj, i);
            fill_pattern(p, c->es, ++c->serial);
            memcpy(&c->bytes[i * c->es], p, c->es);
        }
    }
    c->count = n;
}

static void op_reserve(struct slot * const s, const size_t n, const int inject)
{
    const struct snap o = snapshot(s);

    if (n <= o.cap || n > MAXN || inject) {
        /* nothing to do, or impossible: a quiet no-op */
        tm_fail = inject;
        cstl_vector_reserve(s->obj, n);
        tm_fail = 0;
        expect_untouched(s, &o, "reserve (no-op)");
    } else {
        cstl_vector_reserve(s->obj, n);
        CHECK(cstl_vector_size(s->obj) == o.count, "reserve changed the size");
        CHECK(cstl_vector_capacity(s->obj) >= n,
              "reserve(%lu) left capacity %lu", (unsigned long)n,
              (unsigned long)cstl_vector_capacity(s->obj));
    }
    expect_calls(s, &o, 0, 0);
}

static void op_shrink(struct slot * const s, const int inject)
{
    const struct snap o = snapshot(s);

    tm_fail = inject;
    cstl_vector_shrink_to_fit(s->obj);
    tm_fail = 0;

    if (inject && o.count == 0 && o.data != NULL
        && cstl_vector_data(s->obj) == NULL) {
        /*
         * an empty vector can be shrunk without memory by giving up its
         * storage altogether; then all of it has to be gone
         */
        CHECK(cstl_vector_size(s->obj) == 0
              && cstl_vector_capacity(s->obj) == 0,
              "storage released but size/capacity not 0");
        CHECK(tm_find(o.data) == NULL, "storage dropped but not released");
    } else if (inject) {
        /* without memory a vector that holds elements cannot change */
        expect_untouched(s, &o, "failed shrink_to_fit");
    } else {
        CHECK(cstl_vector_size(s->obj) == o.count, "shrink changed the size");
        CHECK(cstl_vector_capacity(s->obj) == o.count,
              "shrink_to_fit left capacity %lu for %lu elements",
              (unsigned long)cstl_vector_capacity(s->obj),
              (unsigned long)o.count);
    }
    expect_calls(s, &o, 0, 0);
}

static void op_clear(struct slot * const s)
{
    struct content * const c = s->c;
    const struct snap o = snapshot(s);

    c->lo = 0;
    c->hi = o.count;
    /* clearing never needs memory */
    tm_fail = 1;
    cstl_vector_clear(s->obj);
    tm_fail = 0;
    c->lo = c->hi = 0;

    CHECK(cstl_vector_size(s->obj) == 0, "clear left elements");
    CHECK(cstl_vector_capacity(s->obj) == 0, "clear left capacity");
    CHECK(cstl_vector_data(s->obj) == NULL, "clear left storage");
    if (o.data != NULL) {
        CHECK(tm_find(o.data) == NULL, "clear did not release the storage");
    }
    expect_calls(s, &o, 0, o.count);
    c->count = 0;
}

static void op_sort(struct slot * const s, const unsigned int how)
{
    static const cstl_sort_algorithm_t algo[] = {
        CSTL_SORT_ALGORITHM_QUICK,
        CSTL_SORT_ALGORITHM_QUICK_R,
        CSTL_SORT_ALGORITHM_QUICK_M,
        CSTL_SORT_ALGORITHM_HEAP,
        CSTL_SORT_ALGORITHM_DEFAULT,
        (cstl_sort_algorithm_t)2897234,
    };
    struct content * const c = s->c;
    const struct snap o = snapshot(s);
    size_t i;

    g_cmp_es = c->es;
    tm_fail = 1;
    switch (how % 8) {
    case 6:
        cstl_vector_sort(s->obj, t_cmp, NULL);
        break;
    case 7:
        __cstl_vector_sort(s->obj, t_cmp, NULL, t_swap, algo[(how / 8) % 6]);
        break;
    default:
        __cstl_vector_sort(s->obj, t_cmp, NULL,
                           (how & 64) ? t_swap : cstl_swap, algo[how % 8]);
        break;
    }
    tm_fail = 0;

    qsort(c->bytes, c->count, c->es, q_cmp);
    expect_untouched(s, &o, "sort");
    expect_calls(s, &o, 0, 0);

    for (i = 0; i < c->count; i++) {
        const unsigned char * const e = &c->bytes[i * c->es];
        CHECK(cstl_vector_search(s->obj, e, t_cmp, NULL) == (ssize_t)i
              || (i > 0 && memcmp(e - c->es, e, c->es) == 0)
              || (i + 1 < c->count && memcmp(e + c->es, e, c->es) == 0),
              "search does not find element %lu", (unsigned long)i);
        CHECK(cstl_vector_find(s->obj, e, t_cmp, NULL) >= 0,
              "find does not find element %lu", (unsigned long)i);
    }
}

static void op_reverse(struct slot * const s, const unsigned int how)
{
    struct content * const c = s->c;
    const struct snap o = snapshot(s);
    unsigned char t[MAXES];
    size_t i, j;

    g_cmp_es = c->es;
    tm_fail = 1;
    if (how & 1) {
        __cstl_vector_reverse(s->obj, t_swap);
    } else {
        cstl_vector_reverse(s->obj);
    }
    tm_fail = 0;

    for (i = 0, j = c->count; i + 1 < j; i++) {
        j--;
        memcpy(t, &c->bytes[i * c->es], c->es);
        memcpy(&c->bytes[i * c->es], &c->bytes[j * c->es], c->es);
        memcpy(&c->bytes[j * c->es], t, c->es);
    }
    expect_untouched(s, &o, "reverse");
    expect_calls(s, &o, 0, 0);
}

static void op_swap(struct slot * const a, struct slot * const b)
{
    const struct snap oa = snapshot(a), ob = snapshot(b);
    struct content * t;

    tm_fail = 1;
    cstl_vector_swap(a->obj, b->obj);
    tm_fail = 0;

    t = a->c; a->c = b->c; b->c = t;
    a->c->holder = a->obj;
    b->c->holder = b->obj;

    expect_untouched(a, &ob, "swap");
    expect_untouched(b, &oa, "swap");
    CHECK(cstl_vector_size(&g_log) == 0, "swap ran callbacks");
}

/* ------------------------------------------------------------------ */
/* choosing sizes                                                      */
/* ------------------------------------------------------------------ */

static size_t pick_size(const struct slot * const s)
{
    const size_t size = cstl_vector_size(s->obj);
    const size_t cap = cstl_vector_capacity(s->obj);
    const size_t es = s->c->es;
    const size_t m = SIZE_MAX / es;
    size_t n;

    switch (rnd() % 32) {
    case 0: n = 0; break;
    case 1: n = 1; break;
    case 2: n = size - 1; break;        /* SIZE_MAX for an empty vector */
    case 3: n = size; break;
    case 4: n = size + 1; break;
    case 5: n = cap - 1; break;
    case 6: n = cap; break;
    case 7: n = cap + 1; break;
    case 8: n = cap + 2; break;
    case 9: n = SIZE_MAX; break;
    case 10: n = SIZE_MAX - 1; break;
    case 11: n = SIZE_MAX - 2; break;
    case 12: n = m + 1; break;
    case 13: n = m; break;
    case 14: n = m - 1; break;
    case 15: n = m - 2; break;
    case 16: n = m / 2 + 1; break;
    case 17: n = SIZE_MAX / 2 + (rnd() % 3); break;
    case 18: n = ((size_t)1 << 63) / es + (rnd() % 3); break;
    case 19: n = ((size_t)1 << 32) / es + (rnd() % 3) + ((size_t)1 << 31);
        break;
    case 20: n = ((size_t)1 << 31) + 5; break;
    /* byte counts that wrap to something small */
    case 21: n = m + 1 + rnd() % 8; break;
    case 22: n = (m + 1) * (1 + rnd() % 3) + rnd() % 4; break;
    case 23: n = SIZE_MAX - rnd() % 70; break;
    default: n = rnd() % 40; break;
    }

    if (n > 72 && n < ((size_t)1 << 31)) {
        n %= 40;
    }
    return n;
}

/* ------------------------------------------------------------------ */
/* scenarios                                                           */
/* ------------------------------------------------------------------ */

static struct content g_content[2];

static void content_init(struct content * const c,
                         struct cstl_vector * const holder,
                         const size_t es, const int complex)
{
    memset(c, 0, sizeof(*c));
    c->holder = holder;
    c->es = es;
    c->complex = complex;
}

static void run_ops(struct slot * const s, const unsigned int nops,
                    const unsigned int abort_every)
{
    unsigned int k;

    check_slot(&s[0]);
    check_slot(&s[1]);

    for (k = 0; k < nops; k++) {
        struct slot * const t = &s[rnd() & 1];
        const unsigned int r = rnd() % 100;

        g_step++;
        if (r < 34) {
            op_resize(t, pick_size(t), rnd() % 6 == 0);
        } else if (r < 54) {
            op_reserve(t, pick_size(t), rnd() % 5 == 0);
        } else if (r < 64) {
            op_shrink(t, rnd() % 4 == 0);
        } else if (r < 69) {
            op_clear(t);
        } else if (r < 79) {
            op_swap(&s[0], &s[1]);
        } else if (r < 90) {
            op_sort(t, rnd());
        } else {
            op_reverse(t, rnd());
        }

        check_slot(&s[0]);
        check_slot(&s[1]);

        if (abort_every != 0 && rnd() % abort_every == 0) {
            check_at_aborts(t);
        }
    }
}

static void finish(struct slot * const s, const size_t baseline)
{
    check_at_aborts(&s[0]);
    check_at_aborts(&s[1]);
    if (s[0].c != &g_content[0]) {
        /* hand every object its own element type back */
        op_swap(&s[0], &s[1]);
    }
    op_clear(&s[0]);
    op_clear(&s[1]);
    check_slot(&s[0]);
    check_slot(&s[1]);
    cstl_vector_clear(&g_log);
    CHECK(tm_live == baseline, "%lu allocations leaked",
          (unsigned long)(tm_live - baseline));
}

/* the fixed part: every boundary request against an empty and a small vector */
static void boundaries(struct slot * const s)
{
    const size_t es = s->c->es;
    const size_t m = SIZE_MAX / es;
    size_t huge[16];
    unsigned int i, n = 0, round;

    huge[n++] = SIZE_MAX;
    huge[n++] = SIZE_MAX - 1;
    huge[n++] = m + 1;
    huge[n++] = m;
    huge[n++] = m - 1;
    huge[n++] = m - 2;
    huge[n++] = m / 2;
    huge[n++] = m / 2 + 1;
    huge[n++] = SIZE_MAX / 2;
    huge[n++] = SIZE_MAX / 2 + 1;
    huge[n++] = (m + 1) * 2 + 3;
    huge[n++] = m + 4;
    huge[n++] = ((size_t)1 << 31) + 5;
    huge[n++] = ((size_t)1 << 32) + 1;
    huge[n++] = ((size_t)1 << 63) / es + 1;
    huge[n++] = ((size_t)1 << 63);

    for (round = 0; round < 3; round++) {
        g_step++;
        /* round 0: never allocated; 1: three elements; 2: cleared again */
        op_shrink(s, 0);
        op_sort(s, round);
        op_reverse(s, round);
        if (round != 1) {
            op_resize(s, 0, 0);
        }
        check_slot(s);
        for (i = 0; i < n; i++) {
            if (huge[i] > MAXN) {
                op_reserve(s, huge[i], 0);
                check_slot(s);
                if (es == 1 || es == 3 || es == 8 || es == 24 || es == 64
                    || i < 6) {
                    op_resize(s, huge[i], 0);
                    check_slot(s);
                }
            }
        }
        if (round == 0) {
            op_resize(s, 3, 0);
            op_reserve(s, 7, 0);
            check_slot(s);
            /* growth with no memory to be had */
            op_resize(s, 8, 1);
            op_reserve(s, 8, 1);
            op_shrink(s, 1);
            check_slot(s);
            op_shrink(s, 0);
            check_slot(s);
        } else if (round == 1) {
            check_at_aborts(s);
            op_clear(s);
            check_slot(s);
            op_clear(s);
            check_slot(s);
        }
    }
    check_at_aborts(s);
}

static unsigned long g_half_cons, g_half_dest;

static void h_check(void * const e, struct cstl_vector * const v)
{
    const uintptr_t d = (uintptr_t)cstl_vector_data(v);
    CHECK(d != 0 && (uintptr_t)e >= d && ((uintptr_t)e - d) % 24 == 0
          && ((uintptr_t)e - d) / 24 < cstl_vector_capacity(v),
          "callback element outside the storage");
}

static void h_cons(void * const e, void * const p)
{
    h_check(e, p);
    g_half_cons++;
    memset(e, 0x11, 24);
}

static void h_dest(void * const e, void * const p)
{
    h_check(e, p);
    g_half_dest++;
    memset(e, 0x22, 24);
}

struct s24 { double d; void * p; int i; };
struct s64 { unsigned char b[64]; };
struct s12 { int a, b, c; };

static DECLARE_CSTL_VECTOR(sv_char, char);
static DECLARE_CSTL_VECTOR(sv_short, short);
static DECLARE_CSTL_VECTOR(sv_int, int);
static DECLARE_CSTL_VECTOR(sv_double, double);
static DECLARE_CSTL_VECTOR(sv_s12, struct s12);
static DECLARE_CSTL_VECTOR(sv_s24, struct s24);
static DECLARE_CSTL_VECTOR(sv_s64, struct s64);
static DECLARE_CSTL_VECTOR(sv_ld, long double);

int main(void)
{
    static const struct { struct cstl_vector * v; size_t es; } typed[] = {
        { &sv_char, sizeof(char) },
        { &sv_short, sizeof(short) },
        { &sv_int, sizeof(int) },
        { &sv_double, sizeof(double) },
        { &sv_s12, sizeof(struct s12) },
        { &sv_s24, sizeof(struct s24) },
        { &sv_s64, sizeof(struct s64) },
        { &sv_ld, sizeof(long double) },
    };
    struct rlimit rl = { 0, 0 };
    struct cstl_vector va, vb;
    struct slot s[2];
    size_t es, baseline;
    unsigned int i;
    int complex;

    setrlimit(RLIMIT_CORE, &rl);

    /* get stdio's buffers out of the way */
    printf("C09 vector storage test\n");
    fflush(stdout);
    fprintf(stderr, "%s", "");

    cstl_vector_resize(&g_aux, 2);
    *(unsigned long *)cstl_vector_at(&g_aux, 0) = 0;
    *(unsigned long *)cstl_vector_at(&g_aux, 1) = 0;

    for (es = 1; es <= MAXES; es++) {
        for (complex = 0; complex < 2; complex++) {
            /* a second vector of another element size and kind */
            const size_t es2 = (es * 7 + 3) % MAXES + 1;

            g_rng = 0x9e3779b97f4a7c15ull * (es * 2 + complex + 1);
            baseline = tm_live;

            if (complex) {
                cstl_vector_init_complex(&va, es, t_cons, t_dest,
                                         &g_content[0]);
                cstl_vector_init(&vb, es2);
            } else {
                cstl_vector_init(&va, es);
                cstl_vector_init_complex(&vb, es2, t_cons, t_dest,
                                         &g_content[1]);
            }
            content_init(&g_content[0], &va, es, complex);
            content_init(&g_content[1], &vb, es2, !complex);
            s[0].obj = &va; s[0].c = &g_content[0];
            s[1].obj = &vb; s[1].c = &g_content[1];

            g_where = "boundaries";
            boundaries(&s[0]);
            check_slot(&s[1]);

            g_where = "random";
            run_ops(s, 140, 40);
            finish(s, baseline);
        }
    }

    /* statically initialised vectors of real types, pairwise */
    g_where = "static";
    for (i = 0; i < sizeof(typed) / sizeof(*typed); i++) {
        const unsigned int j = (i + 3) % (sizeof(typed) / sizeof(*typed));

        g_rng = 0xabcdef12345ull + i;
        baseline = tm_live;
        content_init(&g_content[0], typed[i].v, typed[i].es, 0);
        content_init(&g_content[1], typed[j].v, typed[j].es, 0);
        s[0].obj = typed[i].v; s[0].c = &g_content[0];
        s[1].obj = typed[j].v; s[1].c = &g_content[1];

        boundaries(&s[0]);
        run_ops(s, 300, 60);
        finish(s, baseline);
    }

    /* only a constructor, only a destructor, and a NULL pair */
    g_where = "half";
    for (i = 0; i < 3; i++) {
        unsigned int k;

        baseline = tm_live;
        g_half_cons = g_half_dest = 0;
        cstl_vector_init_complex(&va, 24,
                                 i == 0 ? h_cons : NULL,
                                 i == 1 ? h_dest : NULL, &va);
        cstl_vector_resize(&va, 10);
        CHECK(g_half_cons == (i == 0 ? 10u : 0u) && g_half_dest == 0,
              "half %u: grow to 10", i);
        for (k = 0; k < 10; k++) {
            memset(cstl_vector_at(&va, k), 0x40 + k, 24);
        }
        cstl_vector_resize(&va, 4);
        CHECK(g_half_cons == (i == 0 ? 10u : 0u)
              && g_half_dest == (i == 1 ? 6u : 0u), "half %u: shrink to 4", i);
        cstl_vector_reserve(&va, 40);
        cstl_vector_resize(&va, 6);
        CHECK(g_half_cons == (i == 0 ? 12u : 0u)
              && g_half_dest == (i == 1 ? 6u : 0u), "half %u: grow to 6", i);
        CHECK(cstl_vector_size(&va) == 6 && cstl_vector_capacity(&va) >= 40,
              "half %u: size/capacity", i);
        for (k = 0; k < 4; k++) {
            unsigned char want[24];
            memset(want, 0x40 + k, 24);
            CHECK(memcmp(cstl_vector_at(&va, k), want, 24) == 0,
                  "half %u: element %u lost its bytes", i, k);
        }
        cstl_vector_shrink_to_fit(&va);
        CHECK(cstl_vector_size(&va) == 6 && cstl_vector_capacity(&va) == 6,
              "half %u: shrink_to_fit", i);
        cstl_vector_clear(&va);
        CHECK(g_half_cons == (i == 0 ? 12u : 0u)
              && g_half_dest == (i == 1 ? 12u : 0u), "half %u: clear", i);
        CHECK(cstl_vector_size(&va) == 0 && cstl_vector_capacity(&va) == 0
              && cstl_vector_data(&va) == NULL, "half %u: cleared state", i);
        CHECK(tm_live == baseline, "half %u: leak", i);
    }

    cstl_vector_clear(&g_aux);

    printf("ok: %lu steps, %lu forks, %lu allocations, %lu frees, "
           "%lu injected failures\n",
           g_step, g_forks, tm_allocs, tm_frees, tm_fail_hits);
    return 0;
}
