/*
 * C14: array views never reach outside their buffer, which lives as
 * long as any view.
 *
 * The program drives the public cstl_array_* API only. It is linked with
 * -Wl,--wrap=malloc,--wrap=calloc,--wrap=realloc,--wrap=free so that it
 * can see which heap blocks the library holds (to check that elements of
 * allocated arrays lie inside a live block, that the block goes away with
 * the last view, that nothing is freed twice and nothing piles up) and so
 * that it can make allocations fail. It makes no assumption on how many
 * blocks the library uses, how big they are, where in a block the
 * elements start or in which order blocks are obtained and returned.
 *
 * Expected aborts are observed in forked children. The same program is
 * used for all three variants (a, b, c) and for the unchanged library.
 */
#define _POSIX_C_SOURCE 200809L

#include "cstl/array.h"

#include <stdio.h>
#include <stdlib.h>
#include <string.h>
#include <stdint.h>
#include <signal.h>
#include <unistd.h>
#include <sys/types.h>
#include <sys/wait.h>
#include <sys/resource.h>

/* ------------------------------------------------------------------ */
/* allocator instrumentation                                          */
/* ------------------------------------------------------------------ */

void * __real_malloc(size_t);
void * __real_calloc(size_t, size_t);
void * __real_realloc(void *, size_t);
void __real_free(void *);

#define MAXLIVE 4096
static struct blk
{
    unsigned char * p;
    size_t n;
    unsigned long serial;
} live[MAXLIVE];
static int nlive;
static unsigned long serial;
static long fail_countdown;
static int fail_fired;
static unsigned long step;

static void die(const char * const what, const int line)
{
    fprintf(stderr, "C14 test FAILED (line %d, step %lu): %s\n",
            line, step, what);
    fflush(stderr);
    _exit(1);
}
#define CHECK(C) do { if (!(C)) { die(#C, __LINE__); } } while (0)

static void blk_add(void * const p, const size_t n)
{
    if (nlive >= MAXLIVE) {
        die("too many live blocks (leak?)", __LINE__);
    }
    live[nlive].p = p;
    live[nlive].n = n;
    live[nlive].serial = ++serial;
    nlive++;
}

static int blk_find(const void * const p)
{
    int i;
    for (i = 0; i < nlive; i++) {
        if (live[i].p == (const unsigned char *)p) {
            return i;
        }
    }
    return -1;
}

/* the live block whose bytes include [p, p + n); -1 if none */
static int blk_containing(const void * const p, const size_t n)
{
    const uintptr_t a = (uintptr_t)p;
    int i;
    for (i = 0; i < nlive; i++) {
        const uintptr_t b = (uintptr_t)live[i].p;
        if (a >= b && a - b <= live[i].n && n <= live[i].n - (a - b)) {
            return i;
        }
    }
    return -1;
}

static int blk_serial_live(const unsigned long s)
{
    int i;
    for (i = 0; i < nlive; i++) {
        if (live[i].serial == s) {
            return 1;
        }
    }
    return 0;
}

static int should_fail(void)
{
    if (fail_countdown > 0 && --fail_countdown == 0) {
        fail_fired = 1;
        return 1;
    }
    return 0;
}

void * __wrap_malloc(const size_t n)
{
    void * p;
    if (should_fail()) {
        return NULL;
    }
    p = __real_malloc(n);
    if (p != NULL) {
        /* whatever is in there, the library must not depend on it */
        memset(p, 0xA5, n);
        blk_add(p, n);
    }
    return p;
}

void * __wrap_calloc(const size_t a, const size_t b)
{
    void * p;
    if (should_fail()) {
        return NULL;
    }
    p = __real_calloc(a, b);
    if (p != NULL) {
        blk_add(p, a * b);
    }
    return p;
}

void __wrap_free(void * const p)
{
    int i;
    if (p == NULL) {
        return;
    }
    i = blk_find(p);
    if (i < 0) {
        die("free() of something that is not a live heap block "
            "(double free, or an external buffer was freed)", __LINE__);
    }
    /* make a use after free visible */
    memset(p, 0xDD, live[i].n);
    live[i] = live[--nlive];
    __real_free(p);
}

void * __wrap_realloc(void * const p, const size_t n)
{
    void * q;
    int i = -1;
    if (p != NULL) {
        i = blk_find(p);
        if (i < 0) {
            die("realloc() of something that is not live", __LINE__);
        }
    }
    if (should_fail()) {
        return NULL;
    }
    q = __real_realloc(p, n);
    if (q != NULL || n == 0) {
        if (i >= 0) {
            live[i] = live[--nlive];
        }
        if (q != NULL) {
            blk_add(q, n);
        }
    }
    return q;
}

/* ------------------------------------------------------------------ */
/* observing abort()                                                  */
/* ------------------------------------------------------------------ */

static unsigned long nforks;

/* in the parent: 1 if the child was killed by SIGABRT, 0 if it survived */
static int child_aborted(const pid_t pid)
{
    int st;
    CHECK(pid > 0);
    CHECK(waitpid(pid, &st, 0) == pid);
    nforks++;
    if (WIFSIGNALED(st)) {
        /* any other signal (SIGSEGV, ...) is a failure of its own */
        CHECK(WTERMSIG(st) == SIGABRT);
        return 1;
    }
    CHECK(WIFEXITED(st) && WEXITSTATUS(st) == 0);
    return 0;
}

static int at_aborts(cstl_array_t * const a, const size_t i)
{
    const pid_t pid = fork();
    if (pid == 0) {
        (void)cstl_array_at(a, i);
        _exit(0);
    }
    return child_aborted(pid);
}

static int at_const_aborts(const cstl_array_t * const a, const size_t i)
{
    const pid_t pid = fork();
    if (pid == 0) {
        (void)cstl_array_at_const(a, i);
        _exit(0);
    }
    return child_aborted(pid);
}

static int slice_aborts(cstl_array_t * const a,
                        const size_t beg, const size_t end,
                        cstl_array_t * const s)
{
    const pid_t pid = fork();
    if (pid == 0) {
        cstl_array_slice(a, beg, end, s);
        _exit(0);
    }
    return child_aborted(pid);
}

static int unslice_aborts(cstl_array_t * const s, cstl_array_t * const a)
{
    const pid_t pid = fork();
    if (pid == 0) {
        cstl_array_unslice(s, a);
        _exit(0);
    }
    return child_aborted(pid);
}

/* ------------------------------------------------------------------ */
/* the model                                                          */
/* ------------------------------------------------------------------ */

#define NOBJ 6
#define NBUF 16
#define NEXT 4
#define MAXBYTES 256
/* heap blocks the library may hold on to while no array exists */
#define KEEP_MAX 64

struct mbuf
{
    int used;
    int ext;                    /* index of the external store, or -1 */
    size_t nm, sz, bytes;
    unsigned char * base;
    int refs;
    unsigned long serial;       /* of the heap block holding the elements */
    unsigned char shadow[MAXBYTES];
};

struct mobj
{
    int buf;                    /* index into mb[], -1: none */
    size_t off, len;
};

static struct mbuf mb[NBUF];
static struct mobj mo[NOBJ];

/* objects initialised in the three documented ways */
static DECLARE_CSTL_ARRAY(obj0);
static cstl_array_t obj1 = CSTL_ARRAY_INITIALIZER(obj1);
static cstl_array_t objn[NOBJ - 2];
static cstl_array_t * ob[NOBJ];

/* external storage; guard zones around each buffer */
#define GUARD 64
static unsigned char extstore[NEXT][GUARD + MAXBYTES + GUARD];
static int ext_user[NEXT];      /* model buffer using it, -1: free */

static unsigned long rng_state = 88172645463325252UL;
static unsigned long rnd(void)
{
    rng_state ^= rng_state << 13;
    rng_state ^= rng_state >> 7;
    rng_state ^= rng_state << 17;
    return rng_state;
}
static size_t pick(const size_t * const v, const size_t n)
{
    return v[rnd() % n];
}

static int mbuf_new(void)
{
    int i;
    for (i = 0; i < NBUF; i++) {
        if (!mb[i].used) {
            memset(&mb[i], 0, sizeof(mb[i]));
            mb[i].used = 1;
            mb[i].ext = -1;
            return i;
        }
    }
    die("model: out of buffer slots", __LINE__);
    return -1;
}

/* a view stops referring to its buffer */
static void mbuf_unref(const int b)
{
    if (b < 0) {
        return;
    }
    CHECK(mb[b].used && mb[b].refs > 0);
    if (--mb[b].refs == 0) {
        if (mb[b].ext < 0) {
            /* released exactly when the last view went away ... */
            CHECK(!blk_serial_live(mb[b].serial));
        } else {
            /* ... but an external buffer is never given to free() (the
             * free() wrapper would have caught that) nor written to */
            CHECK(memcmp(mb[b].base, mb[b].shadow, mb[b].bytes) == 0);
            ext_user[mb[b].ext] = -1;
        }
        mb[b].used = 0;
    }
}

static void check_guards(void)
{
    int k;
    size_t i;
    for (k = 0; k < NEXT; k++) {
        for (i = 0; i < GUARD; i++) {
            CHECK(extstore[k][i] == 0x5A);
            CHECK(extstore[k][GUARD + MAXBYTES + i] == 0x5A);
        }
    }
}

/* contents of every buffer that is referred to are intact and reachable */
static void check_buffers(void)
{
    int b;
    for (b = 0; b < NBUF; b++) {
        if (mb[b].used) {
            CHECK(mb[b].refs > 0);
            if (mb[b].ext < 0) {
                const int k = blk_containing(mb[b].base, mb[b].bytes);
                CHECK(k >= 0);
                CHECK(live[k].serial == mb[b].serial);
            }
            CHECK(memcmp(mb[b].base, mb[b].shadow, mb[b].bytes) == 0);
        }
    }
    check_guards();
}

/*
 * everything that can be observed about object o. with deep != 0 the
 * out-of-range indexes are tried as well (forks)
 */
static void check_obj(const int o, const int deep)
{
    cstl_array_t * const a = ob[o];
    const struct mobj * const m = &mo[o];

    CHECK(cstl_array_size(a) == m->len);

    if (m->buf < 0) {
        CHECK(m->len == 0 && m->off == 0);
        CHECK(cstl_array_data(a) == NULL);
        CHECK(cstl_array_data_const(a) == NULL);
    } else {
        const struct mbuf * const b = &mb[m->buf];
        size_t idx[40];
        size_t n = 0, j;

        CHECK(b->used && b->refs > 0);
        CHECK(m->off <= b->nm && m->len <= b->nm - m->off);
        CHECK(cstl_array_data(a) == (void *)b->base);
        CHECK(cstl_array_data_const(a) == (const void *)b->base);

        if (m->len <= 32) {
            for (j = 0; j < m->len; j++) {
                idx[n++] = j;
            }
        } else {
            idx[n++] = 0;
            idx[n++] = 1;
            idx[n++] = m->len / 2;
            idx[n++] = m->len - 2;
            idx[n++] = m->len - 1;
            idx[n++] = rnd() % m->len;
        }

        for (j = 0; j < n; j++) {
            const size_t i = idx[j];
            unsigned char * const want = b->base + (m->off + i) * b->sz;
            unsigned char * const p = cstl_array_at(a, i);
            const unsigned char * const q = cstl_array_at_const(a, i);

            CHECK(p == want);
            CHECK(q == want);
            /* inside the buffer */
            CHECK((uintptr_t)p >= (uintptr_t)b->base);
            CHECK((size_t)(p - b->base) <= b->bytes
                  && b->sz <= b->bytes - (size_t)(p - b->base));
            if (b->ext < 0) {
                /* and the buffer is inside one live block of the heap */
                const int k = blk_containing(p, b->sz);
                CHECK(k >= 0 && live[k].serial == b->serial);
            } else {
                unsigned char * const lo = extstore[b->ext] + GUARD;
                CHECK(p >= lo && p + b->sz <= lo + MAXBYTES);
            }
            /* the element really is accessible and holds what it should */
            CHECK(memcmp(p, b->shadow + (m->off + i) * b->sz, b->sz) == 0);
        }
    }

    if (deep) {
        size_t c[12];
        size_t n = 0, j;
        const size_t nm = (m->buf < 0) ? 0 : mb[m->buf].nm;

        c[n++] = m->len;
        c[n++] = m->len + 1;
        c[n++] = nm - m->off;
        c[n++] = nm;
        c[n++] = nm + 1;
        c[n++] = SIZE_MAX;
        c[n++] = SIZE_MAX - 1;
        c[n++] = SIZE_MAX - m->off;
        c[n++] = SIZE_MAX - m->off + 1;
        c[n++] = SIZE_MAX / 2 + 1;
        c[n++] = (size_t)-1 - m->len;
        c[n++] = (size_t)1 << (sizeof(size_t) * 8 - 3);

        for (j = 0; j < n; j++) {
            if (c[j] >= m->len) {
                if (rnd() & 1) {
                    CHECK(at_aborts(a, c[j]));
                } else {
                    CHECK(at_const_aborts(a, c[j]));
                }
            }
        }
        if (m->buf < 0) {
            CHECK(at_aborts(a, 0));
            CHECK(slice_aborts(a, 0, 0, a));
            CHECK(slice_aborts(a, 0, 0, ob[(o + 1) % NOBJ]));
            CHECK(unslice_aborts(a, a));
            CHECK(unslice_aborts(a, ob[(o + 1) % NOBJ]));
        }
    }
}

static void check_all(const int deep_obj)
{
    int o;
    for (o = 0; o < NOBJ; o++) {
        check_obj(o, o == deep_obj);
    }
    check_buffers();
}

/* fill the elements of a fresh buffer through the view o (off 0) */
static void fill_through(const int o)
{
    struct mbuf * const b = &mb[mo[o].buf];
    size_t i, j;
    if (b->bytes > MAXBYTES) {
        die("model: buffer too big", __LINE__);
    }
    for (i = 0; i < b->nm && b->sz > 0; i++) {
        unsigned char * const p = cstl_array_at(ob[o], i);
        for (j = 0; j < b->sz; j++) {
            p[j] = b->shadow[i * b->sz + j] = (unsigned char)rnd();
        }
    }
}

/* object o now is a fresh, whole view of an array the library allocated */
static void model_alloc_ok(const int o, const size_t nm, const size_t sz)
{
    const int old = mo[o].buf;
    const int b = mbuf_new();
    int k;

    mb[b].nm = nm;
    mb[b].sz = sz;
    mb[b].bytes = nm * sz;
    mb[b].refs = 1;
    mb[b].base = cstl_array_data(ob[o]);
    CHECK(mb[b].base != NULL);
    k = blk_containing(mb[b].base, mb[b].bytes);
    CHECK(k >= 0);
    mb[b].serial = live[k].serial;

    mo[o].buf = b;
    mo[o].off = 0;
    mo[o].len = nm;

    CHECK(cstl_array_size(ob[o]) == nm);
    fill_through(o);
    mbuf_unref(old);
}

static void model_set_ok(const int o, const int e,
                         const size_t nm, const size_t sz)
{
    const int old = mo[o].buf;
    const int b = mbuf_new();

    mb[b].ext = e;
    mb[b].nm = nm;
    mb[b].sz = sz;
    mb[b].bytes = nm * sz;
    mb[b].refs = 1;
    mb[b].base = extstore[e] + GUARD;
    memcpy(mb[b].shadow, mb[b].base, mb[b].bytes);
    ext_user[e] = b;

    mo[o].buf = b;
    mo[o].off = 0;
    mo[o].len = nm;
    mbuf_unref(old);
}

static void model_empty(const int o)
{
    const int old = mo[o].buf;
    mo[o].buf = -1;
    mo[o].off = mo[o].len = 0;
    mbuf_unref(old);
}

/* object t becomes a view [off, off + len) of the buffer of object f */
static void model_view(const int f, const int t,
                       const size_t off, const size_t len)
{
    const int old = mo[t].buf;
    const int b = mo[f].buf;
    mb[b].refs++;
    mo[t].buf = b;
    mo[t].off = off;
    mo[t].len = len;
    mbuf_unref(old);
}

static const size_t nms[] = { 0, 1, 2, 3, 5, 8, 16 };
static const size_t szs[] = { 0, 1, 2, 4, 8, 12, 16 };

static int free_ext(void)
{
    int e;
    const int s = rnd() % NEXT;
    for (e = 0; e < NEXT; e++) {
        if (ext_user[(s + e) % NEXT] < 0) {
            return (s + e) % NEXT;
        }
    }
    return -1;
}

static void refresh_ext(const int e)
{
    size_t i;
    for (i = 0; i < MAXBYTES; i++) {
        extstore[e][GUARD + i] = (unsigned char)rnd();
    }
}

/* ------------------------------------------------------------------ */
/* operations                                                         */
/* ------------------------------------------------------------------ */

static void op_alloc(const int o)
{
    const size_t nm = pick(nms, sizeof(nms) / sizeof(*nms));
    const size_t sz = pick(szs, sizeof(szs) / sizeof(*szs));
    cstl_array_alloc(ob[o], nm, sz);
    model_alloc_ok(o, nm, sz);
}

/* element counts and sizes that cannot give an array */
static void op_alloc_huge(const int o)
{
    static const size_t h[][2] = {
        { SIZE_MAX, 2 },
        { SIZE_MAX, 1 },
        { SIZE_MAX - 1, 1 },
        { SIZE_MAX - 8, 1 },
        { SIZE_MAX - 16, 1 },
        { SIZE_MAX - 24, 1 },
        { SIZE_MAX - 32, 1 },
        { SIZE_MAX - 64, 1 },
        { SIZE_MAX / 2 + 1, 2 },
        { SIZE_MAX / 2, 2 },
        { SIZE_MAX / 2 - 8, 2 },
        { SIZE_MAX / 4 + 1, 4 },
        { SIZE_MAX / 8, 8 },
        { SIZE_MAX / 8 + 1, 8 },
        { SIZE_MAX / 8 - 3, 8 },
        { SIZE_MAX, SIZE_MAX },
        { 2, SIZE_MAX },
        { 1, SIZE_MAX },
        { 1, SIZE_MAX - 16 },
        { 1, SIZE_MAX - 40 },
        { 2, SIZE_MAX / 2 + 1 },
        { 3, SIZE_MAX / 3 + 1 },
        { (size_t)1 << (sizeof(size_t) * 4), (size_t)1 << (sizeof(size_t) * 4) },
        { ((size_t)1 << (sizeof(size_t) * 4)) + 1,
          (size_t)1 << (sizeof(size_t) * 4) },
        { SIZE_MAX / 2, 1 },
        { SIZE_MAX / 16, 12 },
    };
    const size_t n = sizeof(h) / sizeof(*h);
    const size_t k = rnd() % n;
    cstl_array_alloc(ob[o], h[k][0], h[k][1]);
    /* neither representable nor available: the object is empty */
    CHECK(cstl_array_size(ob[o]) == 0);
    CHECK(cstl_array_data(ob[o]) == NULL);
    model_empty(o);
}

/* SIZE_MAX elements of no size at all is a perfectly good array */
static void op_alloc_zero_size(const int o)
{
    static const size_t n[] = { SIZE_MAX, SIZE_MAX - 1, SIZE_MAX / 2 + 1, 40 };
    const size_t nm = pick(n, sizeof(n) / sizeof(*n));
    cstl_array_alloc(ob[o], nm, 0);
    model_alloc_ok(o, nm, 0);
}

static void op_set(const int o)
{
    const int e = free_ext();
    size_t nm, sz;
    if (e < 0) {
        return;
    }
    do {
        nm = pick(nms, sizeof(nms) / sizeof(*nms));
        sz = pick(szs, sizeof(szs) / sizeof(*szs));
    } while (nm * sz > MAXBYTES);
    refresh_ext(e);
    cstl_array_set(ob[o], extstore[e] + GUARD, nm, sz);
    CHECK(cstl_array_data(ob[o]) == (void *)(extstore[e] + GUARD));
    model_set_ok(o, e, nm, sz);
}

static size_t slice_candidates(const int o, size_t * const c)
{
    const size_t off = mo[o].off, len = mo[o].len;
    const size_t nm = (mo[o].buf < 0) ? 0 : mb[mo[o].buf].nm;
    size_t n = 0;
    c[n++] = 0;
    c[n++] = 1;
    c[n++] = len / 2;
    c[n++] = len - 1;
    c[n++] = len;
    c[n++] = len + 1;
    c[n++] = nm - off - 1;
    c[n++] = nm - off;
    c[n++] = nm - off + 1;
    c[n++] = nm;
    c[n++] = nm + 1;
    c[n++] = SIZE_MAX;
    c[n++] = SIZE_MAX - 1;
    c[n++] = SIZE_MAX - off;
    c[n++] = SIZE_MAX - off + 1;
    c[n++] = SIZE_MAX / 2 + 1;
    return n;
}

static int slice_valid(const int o, const size_t beg, const size_t end)
{
    if (mo[o].buf < 0) {
        return 0;
    }
    return beg <= end && end <= mb[mo[o].buf].nm - mo[o].off;
}

static void do_slice(const int a, const size_t beg, const size_t end,
                     const int s)
{
    if (slice_valid(a, beg, end)) {
        cstl_array_slice(ob[a], beg, end, ob[s]);
        model_view(a, s, mo[a].off + beg, end - beg);
    } else {
        CHECK(slice_aborts(ob[a], beg, end, ob[s]));
    }
}

static void op_slice(const int a, const int s)
{
    size_t c[16];
    const size_t n = slice_candidates(a, c);
    size_t beg = pick(c, n), end = pick(c, n);
    if (rnd() % 3 != 0 && mo[a].buf >= 0) {
        /* favour legal slices, of the whole buffer range left */
        const size_t room = mb[mo[a].buf].nm - mo[a].off;
        end = (room == SIZE_MAX) ? rnd() : rnd() % (room + 1);
        beg = (end == SIZE_MAX) ? rnd() : rnd() % (end + 1);
    }
    do_slice(a, beg, end, s);
}

static void op_unslice(const int s, const int a)
{
    if (mo[s].buf < 0) {
        CHECK(unslice_aborts(ob[s], ob[a]));
    } else {
        cstl_array_unslice(ob[s], ob[a]);
        model_view(s, a, 0, mb[mo[s].buf].nm);
    }
}

static void op_reset(const int o)
{
    cstl_array_reset(ob[o]);
    model_empty(o);
}

static void op_release(const int o)
{
    void * p = &p;
    const int b = mo[o].buf;
    const int with = rnd() % 4 != 0;

    if (b >= 0 && mb[b].ext >= 0 && mb[b].refs == 1) {
        unsigned char * const base = mb[b].base;
        cstl_array_release(ob[o], with ? &p : NULL);
        if (with) {
            CHECK(p == (void *)base);
        }
        model_empty(o);
    } else {
        cstl_array_release(ob[o], with ? &p : NULL);
        if (with) {
            CHECK(p == NULL);
        }
        /* and nothing changed: check_all() will tell */
    }
}

static void op_write(const int o)
{
    const struct mobj * const m = &mo[o];
    if (m->buf >= 0 && m->len > 0 && mb[m->buf].sz > 0) {
        struct mbuf * const b = &mb[m->buf];
        const size_t i = rnd() % m->len;
        unsigned char * const p = cstl_array_at(ob[o], i);
        size_t j;
        for (j = 0; j < b->sz; j++) {
            p[j] = b->shadow[(m->off + i) * b->sz + j] = (unsigned char)rnd();
        }
    }
}

/* alloc or set with the k-th allocation from now on failing */
static void op_failing(const int o)
{
    const long k = 1 + rnd() % 4;
    const int set = rnd() & 1;
    int e = -1;
    size_t nm, sz;

    do {
        nm = pick(nms, sizeof(nms) / sizeof(*nms));
        sz = pick(szs, sizeof(szs) / sizeof(*szs));
    } while (nm * sz > MAXBYTES);

    if (set) {
        e = free_ext();
        if (e < 0) {
            return;
        }
        refresh_ext(e);
    }

    fail_fired = 0;
    fail_countdown = k;
    if (set) {
        cstl_array_set(ob[o], extstore[e] + GUARD, nm, sz);
    } else {
        cstl_array_alloc(ob[o], nm, sz);
    }
    fail_countdown = 0;

    if (cstl_array_data(ob[o]) != NULL) {
        /* the library got what it needed */
        if (set) {
            CHECK(cstl_array_data(ob[o]) == (void *)(extstore[e] + GUARD));
            model_set_ok(o, e, nm, sz);
        } else {
            model_alloc_ok(o, nm, sz);
        }
    } else {
        /* only a failed allocation can leave it without an array */
        CHECK(fail_fired);
        CHECK(cstl_array_size(ob[o]) == 0);
        model_empty(o);
        if (set) {
            void * p = &p;
            cstl_array_release(ob[o], &p);
            CHECK(p == NULL);
        }
    }
}

static void random_op(void)
{
    const int o = rnd() % NOBJ;
    const int t = rnd() % NOBJ;
    int deep = -1;

    switch (rnd() % 20) {
    case 0: case 1: case 2:
        op_alloc(o);
        break;
    case 3:
        op_alloc_huge(o);
        break;
    case 4:
        if (rnd() % 4 == 0) {
            op_alloc_zero_size(o);
        } else {
            op_failing(o);
        }
        break;
    case 5: case 6:
        op_set(o);
        break;
    case 7: case 8: case 9: case 10: case 11:
        op_slice(o, t);
        break;
    case 12:
        op_slice(o, o);
        break;
    case 13: case 14:
        op_unslice(o, t);
        break;
    case 15:
        op_reset(o);
        break;
    case 16: case 17:
        op_release(o);
        break;
    default:
        op_write(o);
        break;
    }

    if (rnd() % 16 == 0) {
        deep = (rnd() & 1) ? o : t;
    }
    check_all(deep);
}

static void reset_everything(void)
{
    int o;
    for (o = 0; o < NOBJ; o++) {
        op_reset(o);
    }
    for (o = 0; o < NBUF; o++) {
        CHECK(!mb[o].used);
    }
    check_all(-1);
}

/* ------------------------------------------------------------------ */
/* all boundary pairs, for every small view shape                     */
/* ------------------------------------------------------------------ */

static void make_view(const int kind, const size_t nm, const size_t sz,
                      const size_t off, const size_t len)
{
    /* object 0 owns/refers to the whole thing, object 1 is the view */
    if (kind == 0) {
        cstl_array_alloc(ob[0], nm, sz);
        model_alloc_ok(0, nm, sz);
    } else {
        const int e = free_ext();
        CHECK(e >= 0);
        refresh_ext(e);
        cstl_array_set(ob[0], extstore[e] + GUARD, nm, sz);
        model_set_ok(0, e, nm, sz);
    }
    do_slice(0, off, off + len, 1);
    CHECK(mo[1].off == off && mo[1].len == len);
}

static void boundary_sweep(void)
{
    static const size_t shapes[][2] = {
        { 0, 4 }, { 1, 4 }, { 2, 1 }, { 3, 8 }, { 4, 3 },
        { SIZE_MAX, 0 }, { 5, 0 },
    };
    size_t sh;

    for (sh = 0; sh < sizeof(shapes) / sizeof(*shapes); sh++) {
        const size_t nm = shapes[sh][0], sz = shapes[sh][1];
        size_t offs[8], lens[8];
        size_t noff = 0, io;

        if (nm <= 4) {
            for (io = 0; io <= nm; io++) {
                offs[noff++] = io;
            }
        } else {
            offs[noff++] = 0;
            offs[noff++] = 1;
            offs[noff++] = nm / 2;
            offs[noff++] = nm - 1;
            offs[noff++] = nm;
        }

        for (io = 0; io < noff; io++) {
            const size_t off = offs[io];
            size_t nlen = 0, il;
            if (nm - off <= 4) {
                for (il = 0; il <= nm - off; il++) {
                    lens[nlen++] = il;
                }
            } else {
                lens[nlen++] = 0;
                lens[nlen++] = 1;
                lens[nlen++] = (nm - off) / 2;
                lens[nlen++] = nm - off;
            }
            for (il = 0; il < nlen; il++) {
                const size_t len = lens[il];
                const int kind = (int)((sh + io + il) & 1);
                size_t c[16];
                size_t n, ib, ie;

                make_view(kind, nm, sz, off, len);
                check_all(1);
                n = slice_candidates(1, c);

                for (ib = 0; ib < n; ib++) {
                    for (ie = 0; ie < n; ie++) {
                        /* skip pairs seen already */
                        size_t jb, je;
                        int dup = 0;
                        for (jb = 0; jb <= ib && !dup; jb++) {
                            for (je = 0; je < n && !dup; je++) {
                                if ((jb < ib || je < ie)
                                    && c[jb] == c[ib] && c[je] == c[ie]) {
                                    dup = 1;
                                }
                            }
                        }
                        if (dup) {
                            continue;
                        }
                        step++;
                        /* into another object (holding something else) */
                        if ((ib + ie) & 1) {
                            cstl_array_alloc(ob[2], 3, 2);
                            model_alloc_ok(2, 3, 2);
                        }
                        do_slice(1, c[ib], c[ie], 2);
                        check_obj(2, slice_valid(1, c[ib], c[ie])
                                  && ((ib ^ ie) & 3) == 0);
                        check_obj(1, 0);
                        check_buffers();
                        /* into a third one which is a view already */
                        do_slice(1, c[ib], c[ie], 3);
                        check_obj(3, 0);
                        /* in place */
                        if (slice_valid(1, c[ib], c[ie])) {
                            do_slice(1, c[ib], c[ie], 1);
                            check_obj(1, ((ib ^ ie) & 3) == 1);
                            CHECK(mo[1].off == mo[2].off
                                  && mo[1].len == mo[2].len);
                            CHECK(mo[1].len == 0
                                  || cstl_array_at(ob[1], 0)
                                  == cstl_array_at(ob[2], 0));
                            /* and back, through unslice and slice */
                            op_unslice(1, 1);
                            check_obj(1, 0);
                            do_slice(1, off, off + len, 1);
                            check_obj(1, 0);
                        } else {
                            do_slice(1, c[ib], c[ie], 1);
                        }
                    }
                }

                /*
                 * re-target / re-allocate the object while it is a
                 * slice with an offset; the old buffer lives on in 0
                 */
                if (il & 1) {
                    cstl_array_alloc(ob[1], 4, 4);
                    model_alloc_ok(1, 4, 4);
                } else {
                    const int e = free_ext();
                    CHECK(e >= 0);
                    refresh_ext(e);
                    cstl_array_set(ob[1], extstore[e] + GUARD, 4, 4);
                    model_set_ok(1, e, 4, 4);
                }
                CHECK(cstl_array_at(ob[1], 0) == cstl_array_data(ob[1]));
                check_all(1);
                /* the whole of the new one can be sliced */
                do_slice(1, 4, 4, 1);
                do_slice(1, 0, 1, 1);
                do_slice(1, 0, 0, 1);
                check_all(1);
                op_unslice(1, 1);
                do_slice(1, 1, 4, 1);
                do_slice(1, 1, 3, 1);
                do_slice(1, 0, 3, 1);   /* one too far: 2 + 3 > 4 */
                do_slice(1, 0, 2, 1);
                check_all(1);

                reset_everything();
            }
        }
    }
}

/* release: only to the sole remaining user of an external buffer */
static void release_scenarios(void)
{
    void * p;
    const int e = free_ext();
    CHECK(e >= 0);
    refresh_ext(e);

    cstl_array_set(ob[0], extstore[e] + GUARD, 10, 4);
    model_set_ok(0, e, 10, 4);
    do_slice(0, 3, 7, 1);
    do_slice(1, 1, 2, 2);
    check_all(0);

    p = &p;
    cstl_array_release(ob[0], &p);
    CHECK(p == NULL);
    cstl_array_release(ob[1], &p);
    CHECK(p == NULL);
    cstl_array_release(ob[2], NULL);
    check_all(1);

    op_reset(0);
    cstl_array_release(ob[2], &p);
    CHECK(p == NULL);
    check_all(2);
    op_reset(2);

    /* the sole user is a slice with an offset; it gets the buffer */
    p = NULL;
    cstl_array_release(ob[1], &p);
    CHECK(p == (void *)(extstore[e] + GUARD));
    model_empty(1);
    check_all(1);
    cstl_array_release(ob[1], &p);
    CHECK(p == NULL);

    /* an allocated array is never handed out */
    cstl_array_alloc(ob[0], 4, 4);
    model_alloc_ok(0, 4, 4);
    p = &p;
    cstl_array_release(ob[0], &p);
    CHECK(p == NULL);
    check_all(0);
    do_slice(0, 4, 4, 1);
    op_reset(0);
    cstl_array_release(ob[1], &p);
    CHECK(p == NULL);
    check_all(1);
    reset_everything();
}

/* every position at which an allocation can fail */
static void failure_scenarios(void)
{
    long k;
    int set, sliced;

    for (set = 0; set < 2; set++) {
        for (sliced = 0; sliced < 3; sliced++) {
            for (k = 1; k <= 5; k++) {
                int e = -1;
                step++;
                /* what the object is beforehand */
                cstl_array_alloc(ob[0], 8, 4);
                model_alloc_ok(0, 8, 4);
                if (sliced == 1) {
                    do_slice(0, 3, 6, 1);       /* 1: slice, 0 keeps it */
                } else if (sliced == 2) {
                    do_slice(0, 3, 6, 1);
                    op_reset(0);                /* 1: the only view */
                }

                if (set) {
                    e = free_ext();
                    CHECK(e >= 0);
                    refresh_ext(e);
                }
                fail_fired = 0;
                fail_countdown = k;
                if (set) {
                    cstl_array_set(ob[1], extstore[e] + GUARD, 5, 4);
                } else {
                    cstl_array_alloc(ob[1], 5, 4);
                }
                fail_countdown = 0;

                if (cstl_array_data(ob[1]) == NULL) {
                    CHECK(fail_fired);
                    CHECK(cstl_array_size(ob[1]) == 0);
                    model_empty(1);
                } else if (set) {
                    model_set_ok(1, e, 5, 4);
                } else {
                    model_alloc_ok(1, 5, 4);
                }
                check_all(1);
                check_all(0);
                /* the object is as good as new */
                cstl_array_alloc(ob[1], 2, 2);
                model_alloc_ok(1, 2, 2);
                check_all(1);
                reset_everything();
            }
        }
    }
}

/*
 * more arrays at once than any of the other scenarios have, dropped in
 * different orders; checked directly rather than through the model
 */
static void many_objects(void)
{
    enum { N = 24 };
    static const int stride[] = { 1, 5, 7, 11, 13, 23 };
    cstl_array_t v[N], w[N];
    unsigned long ser[N];
    unsigned char * base[N];
    size_t esz[N];
    int i, j, r;

    for (i = 0; i < N; i++) {
        cstl_array_init(&v[i]);
        cstl_array_init(&w[i]);
    }

    for (r = 0; r < 60; r++) {
        const int st = stride[r % 6], st2 = stride[(r / 6) % 6];
        step++;

        for (i = 0; i < N; i++) {
            const size_t nm = (size_t)i + 1;
            int k;
            esz[i] = 1 + (size_t)((i + r) % 5);
            cstl_array_alloc(&v[i], nm, esz[i]);
            CHECK(cstl_array_size(&v[i]) == nm);
            base[i] = cstl_array_data(&v[i]);
            CHECK(base[i] != NULL);
            k = blk_containing(base[i], nm * esz[i]);
            CHECK(k >= 0);
            ser[i] = live[k].serial;
            for (j = 0; j < i; j++) {
                /* a block of its own */
                CHECK(ser[j] != ser[i]);
            }
            for (j = 0; j <= i; j++) {
                unsigned char * const p = cstl_array_at(&v[i], (size_t)j);
                CHECK(p == base[i] + (size_t)j * esz[i]);
                memset(p, i + 1, esz[i]);
            }
        }

        for (i = 0; i < N; i++) {
            /* w[i] still refers to last round's partner on odd rounds */
            cstl_array_slice(&v[i], (size_t)i / 2, (size_t)i + 1, &w[i]);
            CHECK(cstl_array_size(&w[i]) == (size_t)i + 1 - (size_t)i / 2);
        }

        for (j = 0; j < N; j++) {
            i = (j * st) % N;
            cstl_array_reset(&v[i]);
            CHECK(cstl_array_size(&v[i]) == 0);
            CHECK(cstl_array_data(&v[i]) == NULL);
        }

        for (i = 0; i < N; i++) {
            size_t n;
            unsigned char * p;
            CHECK(blk_serial_live(ser[i]));
            CHECK(cstl_array_data(&w[i]) == (void *)base[i]);
            for (n = 0; n < cstl_array_size(&w[i]); n++) {
                size_t b;
                p = cstl_array_at(&w[i], n);
                CHECK(p == base[i] + ((size_t)i / 2 + n) * esz[i]);
                for (b = 0; b < esz[i]; b++) {
                    CHECK(p[b] == (unsigned char)(i + 1));
                }
            }
        }
        CHECK(at_aborts(&w[r % N], cstl_array_size(&w[r % N])));
        CHECK(at_aborts(&v[r % N], 0));

        if (r & 1) {
            /* leave them to the next round's slice() to drop */
            for (j = 0; j < N; j += 2) {
                i = (j * st2) % N;
                cstl_array_unslice(&w[i], &v[i]);
                CHECK(cstl_array_size(&v[i]) == (size_t)i + 1);
                CHECK(cstl_array_at(&v[i], 0) == (void *)base[i]);
                cstl_array_reset(&w[i]);
                CHECK(blk_serial_live(ser[i]));
                cstl_array_reset(&v[i]);
                CHECK(!blk_serial_live(ser[i]));
            }
        } else {
            for (j = 0; j < N; j++) {
                i = (j * st2) % N;
                cstl_array_reset(&w[i]);
                CHECK(!blk_serial_live(ser[i]));
            }
            CHECK(nlive <= KEEP_MAX);
        }
    }

    for (i = 0; i < N; i++) {
        cstl_array_reset(&v[i]);
        cstl_array_reset(&w[i]);
    }
    CHECK(nlive <= KEEP_MAX);
}

int main(void)
{
    struct rlimit rl;
    int o, round;
    int high;

    rl.rlim_cur = rl.rlim_max = 0;
    (void)setrlimit(RLIMIT_CORE, &rl);

    memset(extstore, 0x5A, sizeof(extstore));
    for (o = 0; o < NEXT; o++) {
        ext_user[o] = -1;
    }

    ob[0] = &obj0;
    ob[1] = &obj1;
    for (o = 2; o < NOBJ; o++) {
        /* whatever the memory held before */
        memset(&objn[o - 2], 0xC3 + o, sizeof(objn[o - 2]));
        cstl_array_init(&objn[o - 2]);
        ob[o] = &objn[o - 2];
    }
    for (o = 0; o < NOBJ; o++) {
        mo[o].buf = -1;
    }

    /* fresh objects, however initialised, are empty */
    for (o = 0; o < NOBJ; o++) {
        check_all(o);
    }

    release_scenarios();
    failure_scenarios();
    boundary_sweep();
    many_objects();

    for (round = 0; round < 4; round++) {
        int i;
        rng_state += 0x9E3779B97F4A7C15UL * (round + 1);
        for (i = 0; i < 6000; i++) {
            step++;
            random_op();
        }
        reset_everything();
        /*
         * with no array left, the library may keep a small, bounded
         * amount of memory for itself, but nothing may pile up
         */
        CHECK(nlive <= KEEP_MAX);
    }
    high = nlive;

    /* many lives of the same objects: nothing piles up */
    for (round = 0; round < 20000; round++) {
        cstl_array_alloc(ob[0], 16, 8);
        cstl_array_slice(ob[0], 4, 12, ob[1]);
        cstl_array_slice(ob[1], 2, 4, ob[1]);
        cstl_array_unslice(ob[1], ob[2]);
        cstl_array_set(ob[3], extstore[0] + GUARD, 4, 4);
        cstl_array_slice(ob[3], 1, 2, ob[0]);
        CHECK(cstl_array_at(ob[0], 0) == (void *)(extstore[0] + GUARD + 4));
        CHECK(cstl_array_size(ob[2]) == 16);
        CHECK((unsigned char *)cstl_array_at(ob[1], 1)
              == (unsigned char *)cstl_array_data(ob[2]) + 7 * 8);
        cstl_array_reset(ob[0]);
        cstl_array_reset(ob[1]);
        cstl_array_reset(ob[2]);
        cstl_array_reset(ob[3]);
        CHECK(nlive <= KEEP_MAX);
    }
    CHECK(nlive <= high + 8);
    check_guards();

    printf("C14 ok: %lu steps, %lu forks, %lu allocations, %d blocks kept\n",
           step, nforks, serial, nlive);
    return 0;
}
