/*
 * C01 test: ordered trees hold exactly the inserted-minus-erased multiset,
 * in order. Drives cstl_bintree and cstl_rbtree through the PUBLIC API only
 * and compares against a trivial model (an array of items with a "held"
 * flag). Independent of tree shape, of which duplicate is found/erased and
 * of the order in which clear hands elements back.
 *
 * Focus of this copy: find/erase/hinted insert among many equal keys.
 */
#include <stdio.h>
#include <stdlib.h>
#include <string.h>

#include "cstl/bintree.h"
#include "cstl/rbtree.h"

#define FAIL(...) do { fprintf(stderr, "FAIL %s:%d: ", __FILE__, __LINE__); \
        fprintf(stderr, __VA_ARGS__); fprintf(stderr, "\n"); exit(1); } while (0)
#define CHECK(c) do { if (!(c)) FAIL("%s", #c); } while (0)

struct item
{
    int key;
    int held;
    /* traversal bookkeeping */
    int pre, mid, post, leaf, cleared;
    struct cstl_bintree_node bn;
    int pad;
    struct cstl_rbtree_node rn;
};

static unsigned long ncmp;

static int item_cmp(const void * const a, const void * const b, void * const p)
{
    const struct item * const x = a, * const y = b;
    CHECK(p == (void *)&ncmp);
    ncmp++;
    return (x->key > y->key) - (x->key < y->key);
}

/* a uniform face over the two tree kinds */
struct tree
{
    int rb;
    struct cstl_bintree bt;
    struct cstl_rbtree rt;
};

static void tree_init(struct tree * const t, const int rb)
{
    t->rb = rb;
    cstl_bintree_init(&t->bt, item_cmp, &ncmp, offsetof(struct item, bn));
    cstl_rbtree_init(&t->rt, item_cmp, &ncmp, offsetof(struct item, rn));
}
static size_t tree_size(const struct tree * const t)
{
    return t->rb ? cstl_rbtree_size(&t->rt) : cstl_bintree_size(&t->bt);
}
static void tree_insert(struct tree * const t, void * const e, void * const p)
{
    if (t->rb) {
        cstl_rbtree_insert(&t->rt, e, p);
    } else {
        cstl_bintree_insert(&t->bt, e, p);
    }
}
static const void * tree_find(const struct tree * const t, const void * const e,
                              const void ** const p)
{
    return t->rb ? cstl_rbtree_find(&t->rt, e, p)
           : cstl_bintree_find(&t->bt, e, p);
}
static void * tree_erase(struct tree * const t, const void * const e)
{
    return t->rb ? cstl_rbtree_erase(&t->rt, e) : cstl_bintree_erase(&t->bt, e);
}
static int tree_foreach(const struct tree * const t,
                        cstl_bintree_const_visit_func_t * const v,
                        void * const p, const cstl_bintree_foreach_dir_t d)
{
    return t->rb ? cstl_rbtree_foreach(&t->rt, v, p, d)
           : cstl_bintree_foreach(&t->bt, v, p, d);
}
static void tree_clear(struct tree * const t, cstl_xtor_func_t * const c,
                       void * const p)
{
    if (t->rb) {
        cstl_rbtree_clear(&t->rt, c, p);
    } else {
        cstl_bintree_clear(&t->bt, c, p);
    }
}

/* the model: a pool of items; an item is in the tree iff held != 0 */
#define POOL 4096
static struct item pool[POOL];
static size_t npool;

static size_t model_count(const int key)
{
    size_t i, n = 0;
    for (i = 0; i < npool; i++) {
        n += pool[i].held && pool[i].key == key;
    }
    return n;
}
static size_t model_size(void)
{
    size_t i, n = 0;
    for (i = 0; i < npool; i++) {
        n += pool[i].held != 0;
    }
    return n;
}
static struct item * pool_item(const void * const p)
{
    const struct item * const it = p;
    CHECK(it >= pool && it < pool + npool);
    CHECK(((const char *)it - (const char *)pool) % sizeof(struct item) == 0);
    return (struct item *)it;
}

struct walk
{
    int dir; /* +1 forward, -1 reverse */
    int have_last, last;
    size_t presented;
    long calls, stop_at;
    int stop_val;
};

static int walk_visit(const void * const e,
                      const cstl_bintree_visit_order_t ord, void * const p)
{
    struct walk * const w = p;
    struct item * const it = pool_item(e);

    CHECK(it->held);
    CHECK(w->stop_at < 0 || w->calls < w->stop_at);
    w->calls++;

    switch (ord) {
    case CSTL_BINTREE_VISIT_ORDER_PRE:
        CHECK(it->pre == 0 && it->mid == 0 && it->post == 0 && it->leaf == 0);
        it->pre++;
        break;
    case CSTL_BINTREE_VISIT_ORDER_MID:
        CHECK(it->pre == 1 && it->mid == 0 && it->post == 0 && it->leaf == 0);
        it->mid++;
        break;
    case CSTL_BINTREE_VISIT_ORDER_POST:
        CHECK(it->pre == 1 && it->mid == 1 && it->post == 0 && it->leaf == 0);
        it->post++;
        break;
    case CSTL_BINTREE_VISIT_ORDER_LEAF:
        CHECK(it->pre == 0 && it->mid == 0 && it->post == 0 && it->leaf == 0);
        it->leaf++;
        break;
    default:
        FAIL("unknown visit order %d", (int)ord);
    }

    if (ord == CSTL_BINTREE_VISIT_ORDER_MID
        || ord == CSTL_BINTREE_VISIT_ORDER_LEAF) {
        if (w->have_last) {
            if (w->dir > 0) {
                CHECK(w->last <= it->key);
            } else {
                CHECK(w->last >= it->key);
            }
        }
        w->have_last = 1;
        w->last = it->key;
        w->presented++;
    }

    if (w->stop_at >= 0 && w->calls == w->stop_at) {
        return w->stop_val;
    }
    return 0;
}

static void reset_marks(void)
{
    size_t i;
    for (i = 0; i < npool; i++) {
        pool[i].pre = pool[i].mid = pool[i].post = pool[i].leaf = 0;
    }
}

/* full traversal in one direction; returns the number of visit calls */
static long check_walk(const struct tree * const t, const int dir)
{
    struct walk w;
    size_t i;
    int res;

    memset(&w, 0, sizeof(w));
    w.dir = dir;
    w.stop_at = -1;
    reset_marks();
    res = tree_foreach(t, walk_visit, &w,
                       dir > 0 ? CSTL_BINTREE_FOREACH_DIR_FWD
                       : CSTL_BINTREE_FOREACH_DIR_REV);
    CHECK(res == 0);
    CHECK(w.presented == model_size());
    for (i = 0; i < npool; i++) {
        const struct item * const it = &pool[i];
        if (it->held) {
            CHECK((it->leaf == 1 && it->pre + it->mid + it->post == 0)
                  || (it->leaf == 0 && it->pre == 1 && it->mid == 1
                      && it->post == 1));
        } else {
            CHECK(it->leaf + it->pre + it->mid + it->post == 0);
        }
    }
    return w.calls;
}

static void check_stop(const struct tree * const t, const int dir,
                       const long total, const long at)
{
    struct walk w;
    int res;

    if (total == 0) {
        return;
    }
    memset(&w, 0, sizeof(w));
    w.dir = dir;
    w.stop_at = 1 + at % total;
    w.stop_val = 17 + (int)(at % 5);
    reset_marks();
    res = tree_foreach(t, walk_visit, &w,
                       dir > 0 ? CSTL_BINTREE_FOREACH_DIR_FWD
                       : CSTL_BINTREE_FOREACH_DIR_REV);
    CHECK(res == w.stop_val);
    CHECK(w.calls == w.stop_at);
}

static void check_all(const struct tree * const t, const int maxkey,
                      const unsigned long salt)
{
    long calls;
    int k;

    CHECK(tree_size(t) == model_size());
    calls = check_walk(t, +1);
    CHECK(calls == check_walk(t, -1));
    check_stop(t, +1, calls, (long)(salt % 1000003));
    check_stop(t, -1, calls, (long)((salt / 7) % 1000003));

    for (k = -1; k <= maxkey + 1; k++) {
        struct item probe;
        const void * f, * par = &probe;
        memset(&probe, 0, sizeof(probe));
        probe.key = k;
        f = tree_find(t, &probe, &par);
        if (model_count(k) == 0) {
            CHECK(f == NULL);
            CHECK(par != &probe);
            if (tree_size(t) == 0) {
                CHECK(par == NULL);
            } else {
                CHECK(par != NULL && pool_item(par)->held);
            }
        } else {
            CHECK(f != NULL);
            CHECK(pool_item(f)->held && pool_item(f)->key == k);
            CHECK(par != &probe);
            CHECK(par == NULL || pool_item(par)->held);
            CHECK(f == tree_find(t, &probe, NULL)
                  || pool_item(tree_find(t, &probe, NULL))->key == k);
        }
    }
}

static struct item * new_item(const int key)
{
    struct item * it;
    CHECK(npool < POOL);
    it = &pool[npool++];
    memset(it, 0, sizeof(*it));
    it->key = key;
    return it;
}

static void op_insert(struct tree * const t, const int key, const int hinted)
{
    struct item * const it = new_item(key);
    void * hint = NULL;

    if (hinted) {
        const void * par = NULL;
        (void)tree_find(t, it, &par);
        hint = (void *)par;
    }
    tree_insert(t, it, hint);
    it->held = 1;
}

static void op_erase(struct tree * const t, const int key)
{
    struct item probe;
    const size_t before = model_count(key);
    void * e;

    memset(&probe, 0, sizeof(probe));
    probe.key = key;
    e = tree_erase(t, &probe);
    if (before == 0) {
        CHECK(e == NULL);
    } else {
        struct item * const it = pool_item(e);
        CHECK(it->held && it->key == key);
        it->held = 0;
        CHECK(model_count(key) == before - 1);
    }
}

struct clr
{
    size_t n;
};
static void clear_cb(void * const e, void * const p)
{
    struct item * const it = pool_item(e);
    struct clr * const c = p;
    CHECK(it->held);
    CHECK(it->cleared == 0);
    it->cleared = 1;
    /* the callee owns the element now: scribble over the tree nodes */
    memset(&it->bn, 0xa5, sizeof(it->bn));
    memset(&it->rn, 0xa5, sizeof(it->rn));
    c->n++;
}

static void op_clear(struct tree * const t)
{
    struct clr c;
    size_t i;
    const size_t n = model_size();

    c.n = 0;
    tree_clear(t, clear_cb, &c);
    CHECK(c.n == n);
    for (i = 0; i < npool; i++) {
        if (pool[i].held) {
            CHECK(pool[i].cleared == 1);
            pool[i].held = 0;
        }
        pool[i].cleared = 0;
    }
    CHECK(tree_size(t) == 0);
}

/* every sequence of `len` operations over keys 0..nk-1 */
static unsigned long exhaustive(const int rb, const int len, const int nk)
{
    const int nops = 3 * nk; /* insert k, hinted insert k, erase k */
    unsigned long total = 1, s, n = 0;
    int i;

    for (i = 0; i < len; i++) {
        total *= (unsigned long)nops;
    }
    for (s = 0; s < total; s++) {
        struct tree t;
        unsigned long x = s;

        npool = 0;
        tree_init(&t, rb);
        for (i = 0; i < len; i++) {
            const int op = (int)(x % (unsigned long)nops);
            x /= (unsigned long)nops;
            switch (op / nk) {
            case 0:
                op_insert(&t, op % nk, 0);
                break;
            case 1:
                op_insert(&t, op % nk, 1);
                break;
            default:
                op_erase(&t, op % nk);
                break;
            }
            /* every prefix is itself a shorter sequence; check the tail */
            if (i >= len - 3) {
                check_all(&t, nk - 1, s + (unsigned long)i);
            }
        }
        op_clear(&t);
        check_all(&t, nk - 1, s);
        n++;
    }
    return n;
}

static unsigned int rnd_state;
static unsigned int rnd(void)
{
    rnd_state = rnd_state * 1103515245u + 12345u;
    return (rnd_state >> 16) & 0x7fff;
}

static void random_history(const int rb, const unsigned int seed,
                           const int steps, const int nk, const int every)
{
    struct tree t, u;
    int i;

    rnd_state = seed;
    npool = 0;
    tree_init(&t, rb);
    tree_init(&u, rb);
    for (i = 0; i < steps; i++) {
        const unsigned int r = rnd() % 100;
        const int key = (int)(rnd() % (unsigned int)nk);

        if (npool >= POOL - 1 || r < 1) {
            op_clear(&t);
            npool = 0;
            check_all(&t, nk, (unsigned long)i);
        } else if (r < 30) {
            op_insert(&t, key, 0);
        } else if (r < 55) {
            op_insert(&t, key, 1);
        } else if (r < 97) {
            op_erase(&t, key);
        } else {
            /* round trip through another tree object */
            if (rb) {
                cstl_rbtree_swap(&t.rt, &u.rt);
                CHECK(tree_size(&t) == 0);
                cstl_rbtree_swap(&u.rt, &t.rt);
            } else {
                cstl_bintree_swap(&t.bt, &u.bt);
                CHECK(tree_size(&t) == 0);
                cstl_bintree_swap(&u.bt, &t.bt);
            }
        }
        CHECK(tree_size(&t) == model_size());
        if (i % every == 0) {
            check_all(&t, nk, (unsigned long)i * 31u + seed);
        }
    }
    check_all(&t, nk, seed);
    /* drain by erasing every key until nothing is left */
    while (model_size() > 0) {
        op_erase(&t, (int)(rnd() % (unsigned int)nk));
    }
    check_all(&t, nk, seed);
    CHECK(tree_size(&t) == 0);
}

/* many equal keys: every duplicate must come out exactly once */
static void duplicates(const int rb, const int n, const int hinted)
{
    struct tree t;
    int i;

    npool = 0;
    tree_init(&t, rb);
    for (i = 0; i < n; i++) {
        op_insert(&t, 5, hinted && (i & 1));
        op_insert(&t, (i % 3) * 5, hinted && !(i & 1));
        if (i % 16 == 0) {
            check_all(&t, 10, (unsigned long)i);
        }
    }
    check_all(&t, 10, 1);
    for (i = 0; i < n; i++) {
        op_erase(&t, 5);
        if (i % 16 == 0) {
            check_all(&t, 10, (unsigned long)i);
        }
    }
    while (model_count(5) > 0) {
        op_erase(&t, 5);
    }
    CHECK(model_count(5) == 0);
    check_all(&t, 10, 2);
    while (model_size() > 0) {
        op_erase(&t, 0);
        op_erase(&t, 10);
    }
    check_all(&t, 10, 3);
    op_erase(&t, 5);
    op_clear(&t);
}

int main(void)
{
    int rb;
    unsigned int seed;
    unsigned long n = 0;

    for (rb = 0; rb <= 1; rb++) {
        n += exhaustive(rb, 7, 2);
        n += exhaustive(rb, 5, 3);
        duplicates(rb, 300, 0);
        duplicates(rb, 300, 1);
        for (seed = 1; seed <= 12; seed++) {
            random_history(rb, seed, 3000, 1 + (int)(seed % 6) * 3, 37);
        }
        random_history(rb, 99, 3500, 1, 53);
        random_history(rb, 100, 3500, 200, 53);
    }
    printf("ok: %lu exhaustive sequences, %lu comparisons\n", n, ncmp);
    return 0;
}
