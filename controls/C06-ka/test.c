/*
 * Exercises cstl_weak_ptr_lock() (the code changed by patch a: spin flag
 * replaced by a compare-and-swap "increment if non-zero" loop) through the
 * public API, single threaded and with real threads racing lock() against
 * the last owner's reset().
 *
 * Build + run (from the worktree root, after `make build`):
 *   gcc -std=c99 -D_POSIX_C_SOURCE=200809L -O1 -Iinclude -o _keep/a/test _keep/a/test.c build/libcstl.a -lpthread && ./_keep/a/test
 * Optional, with a race detector (library source compiled in directly):
 *   gcc -std=c99 -D_POSIX_C_SOURCE=200809L -O1 -g -fsanitize=thread -Iinclude -o _keep/a/test _keep/a/test.c src/memory.c -lpthread && ./_keep/a/test
 */
#include "cstl/memory.h"

#include <pthread.h>
#include <stdatomic.h>
#include <stdio.h>
#include <string.h>

#define MAGIC   0x5aa5c33cu
#define WORDS   16
#define NTHR    4
#define ROUNDS  400
#define ITERS   50

static atomic_int cleared;
static atomic_int bad;
static atomic_int go;

#define CHECK(c) do { if (!(c)) { atomic_fetch_add(&bad, 1); \
    fprintf(stderr, "FAIL line %d: %s\n", __LINE__, #c); } } while (0)

static void clr(void * const mem, void * const priv)
{
    CHECK(priv == NULL);
    CHECK(*(volatile unsigned *)mem == MAGIC);
    atomic_fetch_add(&cleared, 1);
    memset(mem, 0, WORDS * sizeof(unsigned));
}

static void live(cstl_shared_ptr_t * const sp)
{
    volatile unsigned * const p = cstl_shared_ptr_get(sp);
    unsigned i;
    CHECK(p != NULL);
    CHECK(atomic_load(&cleared) == 0);
    for (i = 0; p != NULL && i < WORDS; i++) {
        CHECK(p[i] == MAGIC);
    }
}

struct arg
{
    cstl_shared_ptr_t sp;
    cstl_weak_ptr_t wp;
    int id, hits, misses;
};

static void * worker(void * const v)
{
    struct arg * const a = v;
    DECLARE_CSTL_SHARED_PTR(t);
    int i, dead = 0;

    while (!atomic_load(&go)) {
    }

    for (i = 0; i < ITERS; i++) {
        cstl_weak_ptr_lock(&a->wp, &t);
        if (cstl_shared_ptr_get(&t) != NULL) {
            CHECK(!dead);
            live(&t);
            a->hits++;
            if (i & 1) {
                /*
                 * a lock into an already-owning target resets it first;
                 * if t was the last owner that reset kills the memory
                 * and the lock must then fail
                 */
                cstl_weak_ptr_lock(&a->wp, &t);
            }
            if (cstl_shared_ptr_get(&t) != NULL) {
                live(&t);
                cstl_shared_ptr_reset(&t);
            } else {
                dead = 1;
                CHECK(cstl_shared_ptr_get(&a->sp) == NULL);
            }
        } else {
            /* once dead, always dead */
            dead = 1;
            a->misses++;
            CHECK(cstl_shared_ptr_get(&a->sp) == NULL);
        }
        if (i == a->id * 7 + 3) {
            /* drop this thread's owning reference part way through */
            live(&a->sp);
            cstl_shared_ptr_reset(&a->sp);
        }
    }
    cstl_weak_ptr_reset(&a->wp);
    return NULL;
}

int main(void)
{
    int r, i;
    long hits = 0, misses = 0;

    /* single threaded: lock while live, lock after death */
    {
        DECLARE_CSTL_SHARED_PTR(s1);
        DECLARE_CSTL_SHARED_PTR(s2);
        DECLARE_CSTL_WEAK_PTR(w);
        unsigned * p;

        atomic_store(&cleared, 0);
        cstl_weak_ptr_lock(&w, &s2);            /* empty weak pointer */
        CHECK(cstl_shared_ptr_get(&s2) == NULL);

        cstl_shared_ptr_alloc(&s1, WORDS * sizeof(unsigned), clr);
        p = cstl_shared_ptr_get(&s1);
        CHECK(p != NULL);
        for (i = 0; i < WORDS; i++) {
            p[i] = MAGIC;
        }
        CHECK(cstl_shared_ptr_unique(&s1));
        cstl_weak_ptr_from(&w, &s1);
        CHECK(!cstl_shared_ptr_unique(&s1));
        cstl_weak_ptr_lock(&w, &s2);
        CHECK(cstl_shared_ptr_get(&s2) == p);
        cstl_shared_ptr_reset(&s1);
        live(&s2);                              /* s2 keeps it alive */
        cstl_weak_ptr_lock(&w, &s1);
        CHECK(cstl_shared_ptr_get(&s1) == p);
        cstl_shared_ptr_reset(&s2);
        live(&s1);
        cstl_shared_ptr_reset(&s1);
        CHECK(atomic_load(&cleared) == 1);
        for (i = 0; i < 3; i++) {               /* repeated failed locks */
            cstl_weak_ptr_lock(&w, &s1);
            CHECK(cstl_shared_ptr_get(&s1) == NULL);
        }
        CHECK(atomic_load(&cleared) == 1);
        cstl_weak_ptr_reset(&w);
        cstl_weak_ptr_reset(&w);                /* idempotent */
    }

    /* real threads: lock() racing with the owners' reset() */
    for (r = 0; r < ROUNDS && atomic_load(&bad) == 0; r++) {
        DECLARE_CSTL_SHARED_PTR(root);
        DECLARE_CSTL_WEAK_PTR(mw);
        struct arg a[NTHR];
        pthread_t th[NTHR];
        unsigned * p;

        atomic_store(&cleared, 0);
        atomic_store(&go, 0);
        cstl_shared_ptr_alloc(&root, WORDS * sizeof(unsigned), clr);
        p = cstl_shared_ptr_get(&root);
        for (i = 0; i < WORDS; i++) {
            p[i] = MAGIC;
        }
        cstl_weak_ptr_from(&mw, &root);
        for (i = 0; i < NTHR; i++) {
            a[i].id = i;
            a[i].hits = a[i].misses = 0;
            cstl_shared_ptr_init(&a[i].sp);
            cstl_weak_ptr_init(&a[i].wp);
            cstl_shared_ptr_share(&root, &a[i].sp);
            cstl_weak_ptr_from(&a[i].wp, &root);
        }
        cstl_shared_ptr_reset(&root);
        for (i = 0; i < NTHR; i++) {
            pthread_create(&th[i], NULL, worker, &a[i]);
        }
        atomic_store(&go, 1);
        for (i = 0; i < NTHR; i++) {
            pthread_join(th[i], NULL);
            hits += a[i].hits;
            misses += a[i].misses;
        }
        CHECK(atomic_load(&cleared) == 1);
        cstl_weak_ptr_lock(&mw, &root);
        CHECK(cstl_shared_ptr_get(&root) == NULL);
        cstl_weak_ptr_reset(&mw);
        CHECK(atomic_load(&cleared) == 1);
    }

    printf("locks: %ld live, %ld dead; %s\n", hits, misses,
           atomic_load(&bad) ? "FAILED" : "ok");
    return atomic_load(&bad) ? 1 : 0;
}
