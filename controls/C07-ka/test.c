/*
 * Exercises cstl_heap_push()/cstl_heap_get()/cstl_heap_pop() through the
 * public API against a multiset model. Patch a changes the tie-breaking
 * among equal priorities (in the sift-up of push and the sift-down of pop),
 * so this test leans on heaps with many equal priorities: every push/pop
 * sequence up to length 9 over 3 priorities, then long seeded random
 * interleavings over 1, 2, 4 and 1000 distinct priorities.
 *
 * It never assumes WHICH of several equal maxima is returned, only that
 * the returned element is in the heap and no other element is greater.
 * The completeness of the tree is checked as well (slot ids 0..size-1).
 *
 * Build + run (from the worktree root, after `make build`):
 *   gcc -std=c99 -O1 -Iinclude -o _keep/a/test _keep/a/test.c build/libcstl.a -lm && ./_keep/a/test
 */
#include "cstl/heap.h"

#include <stdio.h>
#include <stdlib.h>
#include <string.h>

struct item
{
    int prio;
    int in;                     /* model: currently in the heap? */
    unsigned long slots;        /* scratch for the shape check */
    struct cstl_heap_node hn;
};

#define MAXN 4096
static struct item pool[MAXN];
static size_t npool;            /* items handed out so far */
static size_t nin;              /* model size */
static long ncmp;
static int bad;

#define CHECK(c) do { if (!(c)) { bad++; \
    fprintf(stderr, "FAIL line %d: %s\n", __LINE__, #c); exit(1); } } while (0)

static int cmp(const void * const a, const void * const b, void * const p)
{
    const struct item * const x = a, * const y = b;
    CHECK(p == (void *)&ncmp);
    CHECK(x->in && y->in);      /* only elements of the heap are compared */
    ncmp++;
    return (x->prio > y->prio) - (x->prio < y->prio);
}

static int model_max(void)
{
    size_t i;
    int m = -1;
    for (i = 0; i < npool; i++) {
        if (pool[i].in && pool[i].prio > m) {
            m = pool[i].prio;
        }
    }
    return m;
}

/* walk the links: heap order, parent links, and slot ids exactly 0..size-1 */
static size_t walk(const struct cstl_heap * const h,
                   const struct cstl_bintree_node * const n,
                   const struct cstl_bintree_node * const parent,
                   const size_t id, unsigned char * const seen)
{
    const struct item * const it =
        (const void *)((const char *)n - offsetof(struct item, hn.bn));
    size_t cnt = 1;

    CHECK(n->p == parent);
    CHECK(it >= pool && it < pool + npool && it->in);
    CHECK(id < nin);
    CHECK(!seen[id]);
    seen[id] = 1;
    if (parent != NULL) {
        const struct item * const pit =
            (const void *)((const char *)parent - offsetof(struct item, hn.bn));
        CHECK(pit->prio >= it->prio);
    }
    if (n->l != NULL) {
        cnt += walk(h, n->l, n, 2 * id + 1, seen);
    }
    if (n->r != NULL) {
        cnt += walk(h, n->r, n, 2 * id + 2, seen);
    }
    return cnt;
}

static void shape(const struct cstl_heap * const h)
{
    static unsigned char seen[MAXN];
    CHECK(cstl_heap_size(h) == nin);
    if (nin == 0) {
        CHECK(h->bt.root == NULL);
        return;
    }
    memset(seen, 0, nin);
    CHECK(h->bt.root != NULL);
    CHECK(walk(h, h->bt.root, NULL, 0, seen) == nin);
}

static void check_top(const struct cstl_heap * const h)
{
    const struct item * const t = cstl_heap_get(h);
    CHECK(cstl_heap_size(h) == nin);
    if (nin == 0) {
        CHECK(t == NULL);
    } else {
        CHECK(t != NULL && t >= pool && t < pool + npool);
        CHECK(t->in);
        CHECK(t->prio == model_max());
    }
}

static void do_push(struct cstl_heap * const h, const int prio)
{
    struct item * const it = &pool[npool++];
    CHECK(npool <= MAXN);
    it->prio = prio;
    it->in = 1;
    nin++;
    cstl_heap_push(h, it);
    check_top(h);
}

static void do_pop(struct cstl_heap * const h)
{
    const int m = model_max();
    const struct item * const g = cstl_heap_get(h);
    struct item * const t = cstl_heap_pop(h);
    CHECK(t == g);              /* pop removes what get showed */
    if (nin == 0) {
        CHECK(t == NULL);
    } else {
        CHECK(t != NULL && t >= pool && t < pool + npool);
        CHECK(t->in);
        CHECK(t->prio == m);
        t->in = 0;
        nin--;
    }
    check_top(h);
}

static void reset_model(struct cstl_heap * const h)
{
    cstl_heap_init(h, cmp, &ncmp, offsetof(struct item, hn));
    npool = 0;
    nin = 0;
}

/*
 * every sequence of length len over the alphabet {pop, push 0..nprio-1},
 * encoded as a number in base nprio + 1
 */
static long exhaustive(const int len, const int nprio)
{
    long total = 1, code, n = 0;
    int i;

    for (i = 0; i < len; i++) {
        total *= nprio + 1;
    }
    for (code = 0; code < total; code++) {
        struct cstl_heap h;
        long c = code;

        reset_model(&h);
        for (i = 0; i < len; i++, c /= nprio + 1) {
            const int op = c % (nprio + 1);
            if (op == 0) {
                do_pop(&h);
            } else {
                do_push(&h, op - 1);
            }
            shape(&h);
        }
        /* drain: priorities must come out in non-increasing order */
        {
            int last = nprio;
            while (nin > 0) {
                const int m = model_max();
                CHECK(m <= last);
                last = m;
                do_pop(&h);
                shape(&h);
            }
            do_pop(&h);         /* empty: NULL */
        }
        n++;
    }
    return n;
}

static void randomized(const unsigned seed, const int nprio,
                       const int steps, const int pushbias)
{
    struct cstl_heap h;
    int i;

    srand(seed);
    reset_model(&h);
    for (i = 0; i < steps && npool < MAXN; i++) {
        if (rand() % 100 < pushbias) {
            do_push(&h, rand() % nprio);
        } else {
            do_pop(&h);
        }
        if (i % 16 == 0) {
            shape(&h);
        }
    }
    shape(&h);
    while (nin > 0) {
        do_pop(&h);
        if (nin % 8 == 0) {
            shape(&h);
        }
    }
    do_pop(&h);
    CHECK(cstl_heap_size(&h) == 0);
}

int main(void)
{
    long n;
    int len;

    for (len = 0, n = 0; len <= 9; len++) {
        n += exhaustive(len, 3);
    }
    /* all-equal priorities: every shape up to 12 elements */
    n += exhaustive(12, 1);

    randomized(1, 1, 3000, 60);
    randomized(2, 2, 3000, 60);
    randomized(3, 4, 3000, 55);
    randomized(4, 1000, 3000, 65);
    randomized(5, 3, 3000, 50);

    printf("%ld exhaustive sequences, %ld comparisons; %s\n",
           n, ncmp, bad ? "FAILED" : "ok");
    return bad != 0;
}
