/*
 * C16: allocation failure never corrupts a container.
 *
 * Standalone test, public API only. The program supplies its own
 * malloc/calloc/realloc/free (a checking bump allocator with red zones,
 * poisoning, double-free and leak detection) so that any chosen subset
 * of the library's allocations can be made to fail. Every script is run
 * once without failures to count its allocations and then again with
 * every single allocation failing, every suffix failing, every pair
 * failing and (short scripts) every triple failing. Scripts check the
 * container against a model after every operation, keep using the
 * container after a failure, and finish with a heap audit.
 */
#define _POSIX_C_SOURCE 200809L

#include "cstl/map.h"
#include "cstl/vector.h"
#include "cstl/string.h"
#include "cstl/hash.h"
#include "cstl/memory.h"
#include "cstl/array.h"

#include <stdio.h>
#include <stdlib.h>
#include <string.h>
#include <signal.h>
#include <setjmp.h>
#include <unistd.h>
#include <errno.h>
#include <math.h>
#include <wchar.h>

/* ------------------------------------------------------------------ */
/* reporting                                                            */

static const char * g_script = "?";
static char g_plan_txt[96] = "-";

static void die(const char * const file, const int line,
                const char * const what)
{
    char buf[512];
    int n;
    n = snprintf(buf, sizeof(buf), "FAIL %s:%d: %s [script %s, plan %s]\n",
                 file, line, what, g_script, g_plan_txt);
    if (n > 0) {
        if (write(2, buf, (size_t)n) < 0) {
            /* nothing to be done */
        }
    }
    _exit(1);
}

#define CHECK(COND)                                             \
    do {                                                        \
        if (!(COND)) {                                          \
            die(__FILE__, __LINE__, #COND);                     \
        }                                                       \
    } while (0)

/* ------------------------------------------------------------------ */
/* the allocator                                                        */

#define RUN_ARENA_SIZE  ((size_t)24 << 20)
#define SYS_ARENA_SIZE  ((size_t)8 << 20)
#define RZ              32
#define ALIGN           16
#define MAGIC_LIVE      ((size_t)0x4c495645c0ffee01u)
#define MAGIC_FREE      ((size_t)0x46524545deadbe02u)

struct blk
{
    size_t size;        /* bytes requested */
    size_t span;        /* bytes from this header to the next one */
    size_t magic;
    size_t seq;         /* allocation index within the run */
};

static union { unsigned char b[RUN_ARENA_SIZE]; long double a; } run_arena;
static union { unsigned char b[SYS_ARENA_SIZE]; long double a; } sys_arena;
static size_t run_top, sys_top;

static int g_in_run;
static unsigned long g_idx;     /* allocations attempted in this run */
static unsigned long g_fired;   /* failures injected in this run */
static long g_live;             /* live run blocks */
static unsigned long g_frees;   /* frees of run blocks in this run */

/* the failure plan */
static unsigned long g_plan[3];
static int g_plan_n;
static unsigned long g_suffix = (unsigned long)-1;

static size_t round_up(const size_t n)
{
    return (n + (ALIGN - 1)) & ~(size_t)(ALIGN - 1);
}

static int in_run_arena(const void * const p)
{
    return (const unsigned char *)p >= run_arena.b
        && (const unsigned char *)p < run_arena.b + RUN_ARENA_SIZE;
}

static int in_sys_arena(const void * const p)
{
    return (const unsigned char *)p >= sys_arena.b
        && (const unsigned char *)p < sys_arena.b + SYS_ARENA_SIZE;
}

static int should_fail(void)
{
    const unsigned long i = g_idx++;
    int k, f = 0;
    if (i >= g_suffix) {
        f = 1;
    }
    for (k = 0; k < g_plan_n; k++) {
        if (g_plan[k] == i) {
            f = 1;
        }
    }
    if (f) {
        g_fired++;
    }
    return f;
}

static unsigned char * blk_user(struct blk * const b)
{
    return (unsigned char *)b + round_up(sizeof(*b)) + RZ;
}

static struct blk * user_blk(void * const p)
{
    return (struct blk *)((unsigned char *)p - RZ - round_up(sizeof(struct blk)));
}

static void * run_alloc(const size_t sz, const int zero)
{
    struct blk * b;
    unsigned char * u;
    size_t span;

    if (should_fail()) {
        errno = ENOMEM;
        return NULL;
    }
    if (sz > RUN_ARENA_SIZE / 4) {
        /* a request the arena can't serve is a genuine failure */
        errno = ENOMEM;
        return NULL;
    }

    span = round_up(sizeof(*b)) + RZ + round_up(sz + RZ);
    if (run_top + span > RUN_ARENA_SIZE) {
        die(__FILE__, __LINE__, "test arena exhausted");
    }
    b = (struct blk *)(run_arena.b + run_top);
    run_top += span;

    b->size = sz;
    b->span = span;
    b->magic = MAGIC_LIVE;
    b->seq = g_idx - 1;

    u = blk_user(b);
    memset(u - RZ, 0xfb, RZ);
    memset(u, zero ? 0 : 0xa5, sz);
    /* the back red zone starts at the first byte past the request */
    memset(u + sz, 0xfd, (size_t)((unsigned char *)b + span - (u + sz)));
    g_live++;
    return u;
}

static void check_zones(struct blk * const b)
{
    unsigned char * const u = blk_user(b);
    unsigned char * const end = (unsigned char *)b + b->span;
    unsigned char * p;
    for (p = u - RZ; p < u; p++) {
        if (*p != 0xfb) {
            die(__FILE__, __LINE__, "write before the start of a heap block");
        }
    }
    for (p = u + b->size; p < end; p++) {
        if (*p != 0xfd) {
            die(__FILE__, __LINE__, "write past the end of a heap block");
        }
    }
}

static void run_free(void * const p)
{
    struct blk * const b = user_blk(p);
    if (b->magic == MAGIC_FREE) {
        die(__FILE__, __LINE__, "double free");
    }
    if (b->magic != MAGIC_LIVE) {
        die(__FILE__, __LINE__, "free of a pointer that is not a heap block");
    }
    check_zones(b);
    memset(blk_user(b), 0xdd, b->size);
    b->magic = MAGIC_FREE;
    g_live--;
    g_frees++;
}

/* everything in the run arena: no leak, no overrun, no write after free */
static void heap_audit(void)
{
    size_t off = 0;
    while (off < run_top) {
        struct blk * const b = (struct blk *)(run_arena.b + off);
        if (b->magic == MAGIC_LIVE) {
            die(__FILE__, __LINE__, "leaked heap block");
        }
        if (b->magic != MAGIC_FREE) {
            die(__FILE__, __LINE__, "heap header destroyed");
        }
        check_zones(b);
        {
            const unsigned char * u = blk_user(b);
            size_t i;
            for (i = 0; i < b->size; i++) {
                if (u[i] != 0xdd) {
                    die(__FILE__, __LINE__, "write to a freed heap block");
                }
            }
        }
        off += b->span;
    }
    if (g_live != 0) {
        die(__FILE__, __LINE__, "live block count is not zero");
    }
}

static void * sys_alloc(const size_t sz)
{
    size_t * h;
    const size_t span = ALIGN + round_up(sz);
    if (sys_top + span > SYS_ARENA_SIZE) {
        return NULL;
    }
    h = (size_t *)(sys_arena.b + sys_top);
    sys_top += span;
    *h = sz;
    return (unsigned char *)h + ALIGN;
}

void * malloc(const size_t sz)
{
    if (g_in_run) {
        return run_alloc(sz, 0);
    }
    return sys_alloc(sz);
}

void * calloc(const size_t nm, const size_t sz)
{
    void * p;
    if (sz != 0 && nm > (size_t)-1 / sz) {
        if (g_in_run) {
            g_idx++;
        }
        errno = ENOMEM;
        return NULL;
    }
    if (g_in_run) {
        return run_alloc(nm * sz, 1);
    }
    p = sys_alloc(nm * sz);
    if (p != NULL) {
        memset(p, 0, nm * sz);
    }
    return p;
}

void free(void * const p)
{
    if (p == NULL || in_sys_arena(p)) {
        return;
    }
    if (!in_run_arena(p)) {
        die(__FILE__, __LINE__, "free of a pointer that never came from malloc");
    }
    run_free(p);
}

void * realloc(void * const p, const size_t sz)
{
    void * n;
    size_t old;

    if (p == NULL) {
        return malloc(sz);
    }
    if (in_sys_arena(p)) {
        old = *(size_t *)((unsigned char *)p - ALIGN);
        n = sys_alloc(sz);
        if (n != NULL) {
            memcpy(n, p, old < sz ? old : sz);
        }
        return n;
    }
    if (!in_run_arena(p)) {
        die(__FILE__, __LINE__, "realloc of a pointer that never came from malloc");
    }
    {
        struct blk * const b = user_blk(p);
        if (b->magic != MAGIC_LIVE) {
            die(__FILE__, __LINE__, "realloc of a freed or bogus block");
        }
        check_zones(b);
        old = b->size;
    }
    if (sz == 0) {
        /* like glibc: release the block and return nothing */
        g_idx++;
        run_free(p);
        return NULL;
    }
    /* always move, so that stale pointers into the old block show */
    n = run_alloc(sz, 0);
    if (n != NULL) {
        memcpy(n, p, old < sz ? old : sz);
        run_free(p);
    }
    return n;
}

/* none of these are expected; make them loud */
int posix_memalign(void ** const out, const size_t al, const size_t sz)
{
    (void)al;
    *out = malloc(round_up(sz));
    return *out != NULL ? 0 : ENOMEM;
}
void * aligned_alloc(const size_t al, const size_t sz)
{
    (void)al;
    return malloc(round_up(sz));
}

/* ------------------------------------------------------------------ */
/* aborts                                                               */

static sigjmp_buf g_jb;
static volatile sig_atomic_t g_abort_ok;

static void on_abort(const int sig)
{
    (void)sig;
    if (g_abort_ok) {
        g_abort_ok = 0;
        siglongjmp(g_jb, 1);
    }
    die(__FILE__, __LINE__, "unexpected abort()");
}

/* run STMT; ABORTED tells whether it ended in abort() */
#define MAY_ABORT(STMT, ABORTED)                \
    do {                                        \
        (ABORTED) = 0;                          \
        if (sigsetjmp(g_jb, 1) == 0) {          \
            g_abort_ok = 1;                     \
            STMT;                               \
            g_abort_ok = 0;                     \
        } else {                                \
            (ABORTED) = 1;                      \
        }                                       \
    } while (0)

/* ------------------------------------------------------------------ */
/* the explorer                                                         */

typedef void script_fn(void);

static unsigned long g_runs;

static unsigned long run_script(script_fn * const f)
{
    run_top = 0;
    g_idx = 0;
    g_fired = 0;
    g_live = 0;
    g_frees = 0;
    g_in_run = 1;
    f();
    g_in_run = 0;
    heap_audit();
    g_runs++;
    return g_idx;
}

static void plan_none(void)
{
    g_plan_n = 0;
    g_suffix = (unsigned long)-1;
    snprintf(g_plan_txt, sizeof(g_plan_txt), "none");
}

static void explore(const char * const name, script_fn * const f,
                    const unsigned long triple_limit)
{
    unsigned long n, i, j, k, m;

    g_script = name;
    plan_none();
    n = run_script(f);
    CHECK(g_fired == 0);
    /* a script must be deterministic */
    CHECK(run_script(f) == n);
    if (getenv("C16_VERBOSE") != NULL) {
        printf("%-16s %lu allocations\n", name, n);
    }

    /* failures can lengthen a script (retries); leave some slack */
    m = n + 3;

    for (i = 0; i < m; i++) {
        plan_none();
        g_plan_n = 1;
        g_plan[0] = i;
        snprintf(g_plan_txt, sizeof(g_plan_txt), "single %lu", i);
        run_script(f);
    }
    for (i = 0; i < m; i++) {
        plan_none();
        g_suffix = i;
        snprintf(g_plan_txt, sizeof(g_plan_txt), "suffix %lu..", i);
        run_script(f);
    }
    for (i = 0; i < m; i++) {
        for (j = i + 1; j < m; j++) {
            plan_none();
            g_plan_n = 2;
            g_plan[0] = i;
            g_plan[1] = j;
            snprintf(g_plan_txt, sizeof(g_plan_txt), "pair %lu,%lu", i, j);
            run_script(f);
        }
    }
    if (n <= triple_limit) {
        for (i = 0; i < m; i++) {
            for (j = i + 1; j < m; j++) {
                for (k = j + 1; k < m; k++) {
                    plan_none();
                    g_plan_n = 3;
                    g_plan[0] = i;
                    g_plan[1] = j;
                    g_plan[2] = k;
                    snprintf(g_plan_txt, sizeof(g_plan_txt),
                             "triple %lu,%lu,%lu", i, j, k);
                    run_script(f);
                }
            }
        }
    }
    plan_none();
}

/* did the plan inject a failure since MARK was taken */
#define MARK()          (g_fired)
#define FAILED(MARK)    (g_fired != (MARK))

/* ------------------------------------------------------------------ */
/* map world                                                            */

#define MK 48
static int mkeys[MK];
static int mvals[2 * MK];
static cstl_map_t M;
static int m_in[MK];
static void * m_val[MK];
static size_t m_count;

/* the comparator consults another container: a vector of ranks */
static DECLARE_CSTL_VECTOR(m_rank, int);

static int map_cmp(const void * const a, const void * const b, void * const p)
{
    const cstl_vector_t * const rank = p;
    const int ra = *(const int *)cstl_vector_at_const(rank, *(const int *)a);
    const int rb = *(const int *)cstl_vector_at_const(rank, *(const int *)b);
    return (ra > rb) - (ra < rb);
}

static void map_verify(void)
{
    int k;
    CHECK(cstl_map_size(&M) == m_count);
    for (k = 0; k < MK; k++) {
        cstl_map_iterator_t it;
        /* look up through a copy of the key, not the stored pointer */
        int key = k;
        cstl_map_find(&M, &key, &it);
        if (m_in[k]) {
            CHECK(!cstl_map_iterator_eq(&it, cstl_map_iterator_end(&M)));
            CHECK(it.key == &mkeys[k]);
            CHECK(it.val == m_val[k]);
        } else {
            CHECK(cstl_map_iterator_eq(&it, cstl_map_iterator_end(&M)));
        }
    }
}

static void map_insert(const int k, void * const val)
{
    int tries;
    for (tries = 0; tries < 2; tries++) {
        cstl_map_iterator_t it;
        const unsigned long mark = MARK();
        const int r = cstl_map_insert(&M, &mkeys[k], val, &it);
        if (r == 0) {
            CHECK(!m_in[k]);
            m_in[k] = 1;
            m_val[k] = val;
            m_count++;
            CHECK(it.key == &mkeys[k] && it.val == val);
            CHECK(!cstl_map_iterator_eq(&it, cstl_map_iterator_end(&M)));
        } else if (r == 1) {
            CHECK(m_in[k]);
            CHECK(it.key == &mkeys[k] && it.val == m_val[k]);
        } else {
            CHECK(r == -1);
            CHECK(!m_in[k]);
            CHECK(FAILED(mark));
        }
        map_verify();
        if (r != -1) {
            break;
        }
        /* the map is still usable: try once more */
    }
}

static void map_erase(const int k, const int via_iterator)
{
    cstl_map_iterator_t it;
    const unsigned long idx = g_idx;
    int key = k;
    if (via_iterator && m_in[k]) {
        cstl_map_find(&M, &key, &it);
        CHECK(it.key == &mkeys[k]);
        cstl_map_erase_iterator(&M, &it);
        m_in[k] = 0;
        m_count--;
    } else {
        const int r = cstl_map_erase(&M, &key, &it);
        if (m_in[k]) {
            CHECK(r == 0);
            CHECK(it.key == &mkeys[k] && it.val == m_val[k]);
            m_in[k] = 0;
            m_count--;
        } else {
            CHECK(r == -1);
        }
    }
    /* removing never needs memory */
    CHECK(g_idx == idx);
    map_verify();
}

static size_t m_clr_calls;
static void map_clr(void * const e, void * const p)
{
    const cstl_map_iterator_t * const it = e;
    const int k = (int)((const int *)it->key - mkeys);
    CHECK(p == &m_clr_calls);
    CHECK(k >= 0 && k < MK);
    CHECK(m_in[k]);
    CHECK(it->val == m_val[k]);
    m_in[k] = 0;
    m_clr_calls++;
}

static void map_begin(void)
{
    memset(m_in, 0, sizeof(m_in));
    m_count = 0;
    cstl_map_init(&M, map_cmp, &m_rank);
    map_verify();
}

static void map_end(void)
{
    const unsigned long idx = g_idx;
    m_clr_calls = 0;
    cstl_map_clear(&M, map_clr, &m_clr_calls);
    CHECK(m_clr_calls == m_count);
    m_count = 0;
    CHECK(g_idx == idx);
    map_verify();
    /* and it can be used again after having been cleared */
    map_insert(3, &mvals[3]);
    map_insert(1, &mvals[1]);
    cstl_map_clear(&M, NULL, NULL);
    memset(m_in, 0, sizeof(m_in));
    m_count = 0;
    map_verify();
}

static void map_script_ascending(void)
{
    int k;
    map_begin();
    for (k = 0; k < 10; k++) {
        map_insert(k, &mvals[k]);
    }
    map_insert(3, &mvals[MK + 3]);
    map_erase(4, 0);
    map_insert(4, &mvals[MK + 4]);
    map_erase(12, 0);
    map_insert(10, &mvals[10]);
    map_insert(11, NULL);
    for (k = 0; k < 6; k++) {
        map_erase(k, k & 1);
    }
    map_insert(2, &mvals[2]);
    map_end();
}

static void map_script_mixed(void)
{
    static const int order[] = {
        17, 5, 22, 9, 0, 13, 23, 11, 2, 19, 7, 15,
    };
    unsigned int i;
    map_begin();
    for (i = 0; i < sizeof(order) / sizeof(*order); i++) {
        map_insert(order[i], &mvals[order[i]]);
        if (i % 3 == 2) {
            map_erase(order[i - 1], i & 1);
            map_insert(order[i - 2], &mvals[MK]);
        }
    }
    for (i = 0; i < sizeof(order) / sizeof(*order); i += 2) {
        map_erase(order[i], 1);
    }
    for (i = 0; i < 6; i++) {
        map_insert((int)i * 4, &mvals[i]);
    }
    map_end();
}

static void map_script_short(void)
{
    map_begin();
    map_insert(5, &mvals[5]);
    map_insert(5, &mvals[6]);
    map_insert(1, &mvals[1]);
    map_erase(5, 0);
    map_insert(7, &mvals[7]);
    map_end();
}

/* grow, drain completely, grow again: memory must all come back */
static void map_script_drain(void)
{
    int k, round;
    map_begin();
    for (round = 0; round < 2; round++) {
        for (k = 0; k < 11; k++) {
            map_insert((k * 7 + round) % MK, &mvals[k]);
        }
        for (k = MK - 1; k >= 0; k--) {
            if (m_in[k]) {
                map_erase(k, (k + round) & 1);
            }
        }
        CHECK(cstl_map_size(&M) == 0);
    }
    map_insert(9, &mvals[9]);
    map_end();
}

/* many elements; whole runs of neighbours (in insertion order) go */
static void map_script_many(void)
{
    int k;
    map_begin();
    for (k = 0; k < 34; k++) {
        map_insert((k * 5) % MK, &mvals[k]);
    }
    for (k = 8; k < 16; k++) {
        map_erase((k * 5) % MK, k & 1);
    }
    for (k = 34; k < 38; k++) {
        map_insert((k * 5) % MK, &mvals[k]);
    }
    for (k = 1; k < 38; k += 2) {
        map_erase((k * 5) % MK, 0);
    }
    for (k = 0; k < 7; k++) {
        map_erase((k * 5) % MK, 1);
    }
    for (k = 38; k < 48; k++) {
        map_insert((k * 5) % MK, &mvals[k]);
    }
    map_end();
}

/* ------------------------------------------------------------------ */
/* vector world                                                         */

struct big
{
    int id;
    long pad[3];
};

struct vworld
{
    cstl_vector_t * v;
    size_t esz;
    int xtors;          /* has constructor/destructor */
    int id[96];
    size_t n;
    int next;
};

static long v_live;     /* constructed minus destroyed */
static cstl_vector_t V_big, V_other;
static DECLARE_CSTL_VECTOR(V_int, int);
static struct vworld VW, VW2;

static void big_cons(void * const e, void * const p)
{
    struct big * const b = e;
    CHECK(p == &v_live);
    b->id = -1;
    b->pad[0] = b->pad[1] = b->pad[2] = 77;
    v_live++;
}

static void big_dest(void * const e, void * const p)
{
    struct big * const b = e;
    CHECK(p == &v_live);
    CHECK(b->pad[0] == 77 && b->pad[2] == 77);
    b->id = -2;
    v_live--;
}

static int id_cmp(const void * const a, const void * const b, void * const p)
{
    (void)p;
    return (*(const int *)a > *(const int *)b)
        - (*(const int *)a < *(const int *)b);
}

static void vec_verify(struct vworld * const w)
{
    size_t i;
    CHECK(cstl_vector_size(w->v) == w->n);
    CHECK(cstl_vector_capacity(w->v) >= w->n);
    if (w->n > 0) {
        CHECK(cstl_vector_data(w->v) != NULL);
        CHECK(cstl_vector_data(w->v) == cstl_vector_at(w->v, 0));
    }
    for (i = 0; i < w->n; i++) {
        CHECK(*(const int *)cstl_vector_at_const(w->v, i) == w->id[i]);
        if (w->xtors) {
            const struct big * const b = cstl_vector_at_const(w->v, i);
            CHECK(b->pad[0] == 77 && b->pad[1] == 77 && b->pad[2] == 77);
        }
    }
}

static void vec_verify_all(void)
{
    vec_verify(&VW);
    if (VW2.v != NULL) {
        vec_verify(&VW2);
    }
    CHECK(v_live == (long)((VW.xtors ? VW.n : 0)
                           + (VW2.v != NULL && VW2.xtors ? VW2.n : 0)));
}

static int vec_huge(const struct vworld * const w, const size_t r)
{
    return r >= (size_t)-1 / w->esz - 1;
}

static void vec_reserve(struct vworld * const w, const size_t r)
{
    const size_t oldcap = cstl_vector_capacity(w->v);
    const unsigned long mark = MARK();
    const unsigned long idx = g_idx;
    size_t cap;

    cstl_vector_reserve(w->v, r);
    cap = cstl_vector_capacity(w->v);
    CHECK(cap >= oldcap);
    if (r <= oldcap) {
        /* requests to decrease are ignored */
        CHECK(cap == oldcap && g_idx == idx);
    } else if (vec_huge(w, r)) {
        CHECK(cap == oldcap);
    } else if (!FAILED(mark)) {
        CHECK(cap >= r);
    }
    vec_verify_all();
}

static void vec_shrink(struct vworld * const w)
{
    const size_t oldcap = cstl_vector_capacity(w->v);
    const unsigned long mark = MARK();
    size_t cap;

    cstl_vector_shrink_to_fit(w->v);
    cap = cstl_vector_capacity(w->v);
    CHECK(cap <= oldcap && cap >= w->n);
    if (!FAILED(mark)) {
        CHECK(cap == w->n);
    }
    vec_verify_all();
}

/* returns 0 if the resize aborted */
static int vec_resize(struct vworld * const w, const size_t r)
{
    const volatile size_t oldcap = cstl_vector_capacity(w->v);
    void * const volatile olddata = cstl_vector_data(w->v);
    const unsigned long mark = MARK();
    const unsigned long idx = g_idx;
    const unsigned long frees = g_frees;
    volatile int aborted;

    MAY_ABORT(cstl_vector_resize(w->v, r), aborted);
    if (aborted) {
        /* only growth beyond the capacity may abort, and only w/o memory */
        CHECK(r > oldcap);
        CHECK(FAILED(mark) || vec_huge(w, r));
        CHECK(cstl_vector_capacity(w->v) >= oldcap);
    } else {
        if (r <= oldcap) {
            /* always succeeds, without a reallocation */
            CHECK(g_idx == idx && g_frees == frees);
            CHECK(cstl_vector_data(w->v) == olddata);
            CHECK(cstl_vector_capacity(w->v) == oldcap);
        }
        CHECK(cstl_vector_size(w->v) == r);
        CHECK(cstl_vector_capacity(w->v) >= r);
        while (w->n < r) {
            int * const e = cstl_vector_at(w->v, w->n);
            if (w->xtors) {
                CHECK(*e == -1);
            }
            *e = w->id[w->n] = w->next;
            w->next = (w->next * 31 + 7) % 1009;
            w->n++;
        }
        w->n = r;
    }
    vec_verify_all();
    return !aborted;
}

static void vec_sort(struct vworld * const w, const cstl_sort_algorithm_t algo)
{
    const unsigned long idx = g_idx;
    size_t i, j;
    __cstl_vector_sort(w->v, id_cmp, NULL, cstl_swap, algo);
    CHECK(g_idx == idx);
    for (i = 1; i < w->n; i++) {
        const int t = w->id[i];
        for (j = i; j > 0 && w->id[j - 1] > t; j--) {
            w->id[j] = w->id[j - 1];
        }
        w->id[j] = t;
    }
    vec_verify_all();
}

static void vec_reverse(struct vworld * const w)
{
    const unsigned long idx = g_idx;
    size_t i;
    cstl_vector_reverse(w->v);
    CHECK(g_idx == idx);
    for (i = 0; i < w->n / 2; i++) {
        const int t = w->id[i];
        w->id[i] = w->id[w->n - 1 - i];
        w->id[w->n - 1 - i] = t;
    }
    vec_verify_all();
}

static void vec_search(struct vworld * const w)
{
    size_t i;
    for (i = 0; i < w->n; i++) {
        const ssize_t at = cstl_vector_find(w->v, &w->id[i], id_cmp, NULL);
        CHECK(at >= 0 && w->id[at] == w->id[i]);
    }
    {
        const int missing = 5000;
        CHECK(cstl_vector_find(w->v, &missing, id_cmp, NULL) == -1);
    }
}

static void vec_clear(struct vworld * const w)
{
    const unsigned long idx = g_idx;
    cstl_vector_clear(w->v);
    CHECK(g_idx == idx);
    w->n = 0;
    CHECK(cstl_vector_capacity(w->v) == 0);
    CHECK(cstl_vector_data(w->v) == NULL);
    vec_verify_all();
}

static void vw_init(struct vworld * const w, cstl_vector_t * const v,
                    const size_t esz, const int xtors)
{
    memset(w, 0, sizeof(*w));
    w->v = v;
    w->esz = esz;
    w->xtors = xtors;
    w->next = 11;
}

static void vec_script_big(void)
{
    v_live = 0;
    cstl_vector_init_complex(&V_big, sizeof(struct big),
                             big_cons, big_dest, &v_live);
    vw_init(&VW, &V_big, sizeof(struct big), 1);
    VW2.v = NULL;

    vec_shrink(&VW);
    vec_reserve(&VW, 0);
    vec_reserve(&VW, 4);
    vec_resize(&VW, 3);
    vec_reserve(&VW, 2);
    vec_resize(&VW, 4);
    vec_resize(&VW, 9);
    vec_shrink(&VW);
    vec_reserve(&VW, 20);
    vec_resize(&VW, 12);
    vec_sort(&VW, CSTL_SORT_ALGORITHM_QUICK);
    vec_search(&VW);
    vec_reverse(&VW);
    vec_resize(&VW, 5);
    vec_shrink(&VW);
    vec_reserve(&VW, (size_t)-1);
    vec_reserve(&VW, (size_t)-1 / sizeof(struct big));
    vec_reserve(&VW, (size_t)-1 / sizeof(struct big) - 1);
    vec_resize(&VW, 0);
    vec_shrink(&VW);
    vec_resize(&VW, 2);
    vec_sort(&VW, CSTL_SORT_ALGORITHM_HEAP);
    vec_clear(&VW);
    vec_resize(&VW, 3);
    vec_clear(&VW);
    vec_clear(&VW);
    CHECK(v_live == 0);
}

/* one at a time, as a push_back would; the statically initialised one */
static void vec_script_push(void)
{
    size_t i;
    v_live = 0;
    vw_init(&VW, &V_int, sizeof(int), 0);
    VW2.v = NULL;

    for (i = 1; i <= 9; i++) {
        if (!vec_resize(&VW, VW.n + 1)) {
            /* still usable: make room the quiet way and go on */
            vec_reserve(&VW, VW.n + 4);
            vec_resize(&VW, VW.n + 1);
        }
        if (i % 4 == 0) {
            vec_shrink(&VW);
        }
    }
    vec_sort(&VW, CSTL_SORT_ALGORITHM_QUICK_M);
    vec_reverse(&VW);
    vec_shrink(&VW);
    vec_resize(&VW, VW.n / 2);
    vec_shrink(&VW);
    vec_clear(&VW);
}

/* two vectors of different element types, swapped along the way */
static void vec_script_two(void)
{
    v_live = 0;
    cstl_vector_init_complex(&V_big, sizeof(struct big),
                             big_cons, big_dest, &v_live);
    cstl_vector_init_complex(&V_other, sizeof(struct big),
                             big_cons, big_dest, &v_live);
    vw_init(&VW, &V_big, sizeof(struct big), 1);
    vw_init(&VW2, &V_other, sizeof(struct big), 1);
    VW2.next = 500;

    vec_resize(&VW, 3);
    vec_resize(&VW2, 6);
    vec_reserve(&VW, 8);
    {
        /* the objects trade places; the worlds follow */
        const unsigned long idx = g_idx;
        cstl_vector_swap(&V_big, &V_other);
        CHECK(g_idx == idx);
        VW.v = &V_other;
        VW2.v = &V_big;
        vec_verify_all();
    }
    vec_resize(&VW, 7);
    vec_shrink(&VW2);
    vec_resize(&VW2, 7);
    vec_sort(&VW2, CSTL_SORT_ALGORITHM_QUICK_R);
    vec_shrink(&VW);
    vec_clear(&VW2);
    vec_resize(&VW, 1);
    vec_shrink(&VW);
    vec_clear(&VW);
    CHECK(v_live == 0);
    VW2.v = NULL;
}

static void vec_script_short(void)
{
    v_live = 0;
    cstl_vector_init_complex(&V_big, sizeof(struct big),
                             big_cons, big_dest, &v_live);
    vw_init(&VW, &V_big, sizeof(struct big), 1);
    VW2.v = NULL;
    vec_reserve(&VW, 2);
    vec_resize(&VW, 3);
    vec_shrink(&VW);
    vec_resize(&VW, 1);
    vec_shrink(&VW);
    vec_resize(&VW, 2);
    vec_clear(&VW);
}

/* ------------------------------------------------------------------ */
/* string worlds (char and wchar_t from one template)                   */

#define SMAX 200

#define STRING_WORLD(P, T, CH, LIT, LEN, CHR, STR)                          \
                                                                            \
static struct cstl_##P P##_s, P##_t;                                        \
static CH P##_m[SMAX], P##_tm[SMAX];                                        \
static size_t P##_n, P##_tn;                                                \
                                                                            \
static void P##_verify1(const struct cstl_##P * const s,                    \
                        const CH * const m, const size_t n)                 \
{                                                                           \
    size_t i;                                                               \
    const CH * str;                                                         \
    CHECK(cstl_##P##_size(s) == n);                                         \
    CHECK(cstl_##P##_capacity(s) >= n);                                     \
    str = cstl_##P##_str(s);                                                \
    CHECK(str != NULL);                                                     \
    for (i = 0; i < n; i++) {                                               \
        CHECK(str[i] == m[i]);                                              \
        CHECK(*cstl_##P##_at_const(s, i) == m[i]);                          \
    }                                                                       \
    CHECK(str[n] == 0);                                                     \
}                                                                           \
                                                                            \
static void P##_verify(void)                                                \
{                                                                           \
    P##_verify1(&P##_s, P##_m, P##_n);                                      \
    P##_verify1(&P##_t, P##_tm, P##_tn);                                    \
}                                                                           \
                                                                            \
/* every growing call either completes or aborts having done nothing */     \
static int P##_insert(const size_t pos, const CH * const str)               \
{                                                                           \
    const size_t len = LEN(str);                                            \
    const volatile size_t oldcap = cstl_##P##_capacity(&P##_s);                      \
    const unsigned long mark = MARK();                                      \
    const unsigned long idx = g_idx;                                        \
    volatile int aborted;                                                   \
    if (pos > P##_n) {                                                      \
        return 0;                                                           \
    }                                                                       \
    MAY_ABORT(cstl_##P##_insert_str(&P##_s, pos, str), aborted);            \
    if (aborted) {                                                          \
        CHECK(FAILED(mark));                                                \
        CHECK(P##_n + len > oldcap || oldcap == 0);                         \
    } else {                                                                \
        if (len > 0 && P##_n + len <= oldcap && oldcap > 0) {               \
            CHECK(g_idx == idx);                                            \
        }                                                                   \
        memmove(P##_m + pos + len, P##_m + pos,                             \
                (P##_n - pos) * sizeof(CH));                                \
        memcpy(P##_m + pos, str, len * sizeof(CH));                         \
        P##_n += len;                                                       \
    }                                                                       \
    P##_verify();                                                           \
    return !aborted;                                                        \
}                                                                           \
                                                                            \
static int P##_insert_ch(const size_t pos, const size_t cnt, const CH ch)   \
{                                                                           \
    const unsigned long mark = MARK();                                      \
    volatile int aborted;                                                   \
    if (pos > P##_n) {                                                      \
        return 0;                                                           \
    }                                                                       \
    MAY_ABORT(cstl_##P##_insert_ch(&P##_s, pos, cnt, ch), aborted);         \
    if (aborted) {                                                          \
        CHECK(FAILED(mark));                                                \
    } else {                                                                \
        size_t i;                                                           \
        memmove(P##_m + pos + cnt, P##_m + pos,                             \
                (P##_n - pos) * sizeof(CH));                                \
        for (i = 0; i < cnt; i++) {                                         \
            P##_m[pos + i] = ch;                                            \
        }                                                                   \
        P##_n += cnt;                                                       \
    }                                                                       \
    P##_verify();                                                           \
    return !aborted;                                                        \
}                                                                           \
                                                                            \
static int P##_append(const CH * const str)                                 \
{                                                                           \
    const size_t len = LEN(str);                                            \
    const unsigned long mark = MARK();                                      \
    volatile int aborted;                                                            \
    MAY_ABORT(cstl_##P##_append_str(&P##_s, str), aborted);                 \
    if (aborted) {                                                          \
        CHECK(FAILED(mark));                                                \
    } else {                                                                \
        memcpy(P##_m + P##_n, str, len * sizeof(CH));                       \
        P##_n += len;                                                       \
    }                                                                       \
    P##_verify();                                                           \
    return !aborted;                                                        \
}                                                                           \
                                                                            \
static int P##_append_t(void)                                               \
{                                                                           \
    const unsigned long mark = MARK();                                      \
    volatile int aborted;                                                            \
    MAY_ABORT(cstl_##P##_append(&P##_s, &P##_t), aborted);                  \
    if (aborted) {                                                          \
        CHECK(FAILED(mark));                                                \
    } else {                                                                \
        memcpy(P##_m + P##_n, P##_tm, P##_tn * sizeof(CH));                 \
        P##_n += P##_tn;                                                    \
    }                                                                       \
    P##_verify();                                                           \
    return !aborted;                                                        \
}                                                                           \
                                                                            \
static int P##_resize(const size_t n)                                       \
{                                                                           \
    const volatile size_t oldcap = cstl_##P##_capacity(&P##_s);                      \
    const unsigned long mark = MARK();                                      \
    const unsigned long idx = g_idx;                                        \
    volatile int aborted;                                                            \
    MAY_ABORT(cstl_##P##_resize(&P##_s, n), aborted);                       \
    if (aborted) {                                                          \
        CHECK(FAILED(mark));                                                \
        CHECK(n > oldcap || oldcap == 0);                                   \
    } else {                                                                \
        if (oldcap > 0 && n <= oldcap) {                                    \
            CHECK(g_idx == idx);                                            \
        }                                                                   \
        while (P##_n < n) {                                                 \
            P##_m[P##_n++] = 0;                                             \
        }                                                                   \
        P##_n = n;                                                          \
    }                                                                       \
    P##_verify();                                                           \
    return !aborted;                                                        \
}                                                                           \
                                                                            \
static void P##_reserve(const size_t n)                                     \
{                                                                           \
    const volatile size_t oldcap = cstl_##P##_capacity(&P##_s);                      \
    const unsigned long mark = MARK();                                      \
    size_t cap;                                                             \
    cstl_##P##_reserve(&P##_s, n);                                          \
    cap = cstl_##P##_capacity(&P##_s);                                      \
    CHECK(cap >= oldcap);                                                   \
    if (!FAILED(mark) && n < (size_t)-1 / sizeof(CH) / 4) {                 \
        CHECK(cap >= n);                                                    \
    }                                                                       \
    P##_verify();                                                           \
}                                                                           \
                                                                            \
static void P##_erase(const size_t pos, size_t len)                         \
{                                                                           \
    const unsigned long idx = g_idx;                                        \
    if (pos >= P##_n) {                                                     \
        return;                                                             \
    }                                                                       \
    cstl_##P##_erase(&P##_s, pos, len);                                     \
    CHECK(g_idx == idx);                                                    \
    if (len > P##_n - pos) {                                                \
        len = P##_n - pos;                                                  \
    }                                                                       \
    memmove(P##_m + pos, P##_m + pos + len,                                 \
            (P##_n - pos - len) * sizeof(CH));                              \
    P##_n -= len;                                                           \
    P##_verify();                                                           \
}                                                                           \
                                                                            \
/* substring of s into the (possibly non-empty) t */                        \
static void P##_substr(const size_t pos, const size_t _len)                 \
{                                                                           \
    volatile size_t len = _len;                                             \
    const volatile size_t oldcap = cstl_##P##_capacity(&P##_t);                      \
    const unsigned long mark = MARK();                                      \
    const unsigned long idx = g_idx;                                        \
    volatile int aborted;                                                            \
    if (pos >= P##_n) {                                                     \
        return;                                                             \
    }                                                                       \
    MAY_ABORT(cstl_##P##_substr(&P##_s, pos, len, &P##_t), aborted);        \
    if (len > P##_n - pos) {                                                \
        len = P##_n - pos;                                                  \
    }                                                                       \
    if (aborted) {                                                          \
        CHECK(FAILED(mark));                                                \
        CHECK(len > oldcap || oldcap == 0);                                 \
    } else {                                                                \
        if (oldcap > 0 && len <= oldcap) {                                  \
            CHECK(g_idx == idx);                                            \
        }                                                                   \
        memcpy(P##_tm, P##_m + pos, len * sizeof(CH));                      \
        P##_tn = len;                                                       \
    }                                                                       \
    P##_verify();                                                           \
}                                                                           \
                                                                            \
static void P##_finds(void)                                                 \
{                                                                           \
    if (P##_n > 0 && LEN(P##_m) == P##_n) {                                 \
        const CH * const f = CHR(P##_m, LIT('o'));                          \
        const CH * const g = STR(P##_m, LIT("lo"));                         \
        CHECK(cstl_##P##_find_ch(&P##_s, LIT('o'), 0)                       \
              == (f != NULL ? (ssize_t)(f - P##_m) : -1));                  \
        CHECK(cstl_##P##_find_str(&P##_s, LIT("lo"), 0)                     \
              == (g != NULL ? (ssize_t)(g - P##_m) : -1));                  \
        CHECK(cstl_##P##_compare_str(&P##_s, P##_m) == 0);                  \
    }                                                                       \
}                                                                           \
                                                                            \
static void P##_clear(void)                                                 \
{                                                                           \
    const unsigned long idx = g_idx;                                        \
    cstl_##P##_clear(&P##_s);                                               \
    CHECK(g_idx == idx);                                                    \
    P##_n = 0;                                                              \
    CHECK(cstl_##P##_capacity(&P##_s) == 0);                                \
    P##_verify();                                                           \
}                                                                           \
                                                                            \
static void P##_begin(void)                                                 \
{                                                                           \
    cstl_##P##_init(&P##_s);                                                \
    cstl_##P##_init(&P##_t);                                                \
    memset(P##_m, 0, sizeof(P##_m));                                        \
    memset(P##_tm, 0, sizeof(P##_tm));                                      \
    P##_n = P##_tn = 0;                                                     \
    P##_verify();                                                           \
}                                                                           \
                                                                            \
static void P##_end(void)                                                   \
{                                                                           \
    P##_clear();                                                            \
    cstl_##P##_clear(&P##_t);                                               \
    P##_tn = 0;                                                             \
    P##_verify();                                                           \
}                                                                           \
                                                                            \
static void P##_script_edit(void)                                           \
{                                                                           \
    P##_begin();                                                            \
    P##_reserve(3);                                                         \
    P##_append(LIT("hello"));                                               \
    P##_finds();                                                            \
    P##_append(LIT(", world"));                                             \
    P##_insert(5, LIT(" there"));                                           \
    P##_insert(0, LIT(""));                                                 \
    P##_insert_ch(0, 3, LIT('>'));                                          \
    P##_finds();                                                            \
    P##_substr(3, 5);                                                       \
    P##_erase(2, 4);                                                        \
    P##_substr(0, 1000);                                                    \
    P##_append_t();                                                         \
    P##_substr(1, 2);                                                       \
    P##_reserve(60);                                                        \
    P##_insert_ch(P##_n, 20, LIT('z'));                                     \
    P##_resize(4);                                                          \
    P##_resize(9);                                                          \
    P##_erase(0, 1000);                                                     \
    P##_append(LIT("again"));                                               \
    P##_reserve((size_t)-1);                                                \
    P##_reserve((size_t)-2);                                                \
    P##_clear();                                                            \
    P##_append(LIT("after clear"));                                         \
    P##_end();                                                              \
}                                                                           \
                                                                            \
static void P##_script_short(void)                                          \
{                                                                           \
    P##_begin();                                                            \
    if (!P##_append(LIT("ab"))) {                                           \
        P##_reserve(8);                                                     \
        P##_append(LIT("ab"));                                              \
    }                                                                       \
    P##_insert(1, LIT("xyz"));                                              \
    P##_substr(1, 3);                                                       \
    P##_resize(0);                                                          \
    P##_append_t();                                                         \
    P##_end();                                                              \
}

#define LIT_C(X) X
#define LIT_W(X) L##X
STRING_WORLD(string, cstl_string_t, char, LIT_C, strlen, strchr, strstr)
STRING_WORLD(wstring, cstl_wstring_t, wchar_t, LIT_W, wcslen, wcschr, wcsstr)

/* ------------------------------------------------------------------ */
/* hash world                                                           */

#define HN 40
struct item
{
    int id;
    int cleared;
    struct cstl_hash_node hn;
    int tail;
};

static struct item items[HN + 1];
static int h_in[HN + 1];
static size_t h_count;
static DECLARE_CSTL_HASH(H, struct item, hn);
static size_t h_buckets;        /* 0: the table has never been sized */

static size_t item_key(const int id)
{
    /* a few items share a key */
    if (id % 10 == 9) {
        return 100009;
    }
    return (size_t)id * 37 + 5;
}

static size_t hash_custom(const size_t k, const size_t m)
{
    return (k * 7 + 3) % m;
}

static int item_match(const void * const e, void * const p)
{
    return ((const struct item *)e)->id == *(const int *)p;
}

struct h_sum
{
    size_t count;
    long sum;
};

static int h_visit(void * const e, void * const p)
{
    struct item * const it = e;
    struct h_sum * const s = p;
    CHECK(it >= items && it <= &items[HN]);
    CHECK(it->tail == 4242 && h_in[it->id]);
    s->count++;
    s->sum += it->id;
    return 0;
}

static int h_visit_const(const void * const e, void * const p)
{
    return h_visit((void *)e, p);
}

static long h_model_sum(void)
{
    long s = 0;
    int i;
    for (i = 0; i <= HN; i++) {
        if (h_in[i]) {
            s += i;
        }
    }
    return s;
}

/* does not disturb an incremental rehash */
static void hash_verify_light(void)
{
    struct h_sum s;
    CHECK(cstl_hash_size(&H) == h_count);
    if (h_buckets > 0) {
        s.count = 0;
        s.sum = 0;
        CHECK(cstl_hash_foreach_const(&H, h_visit_const, &s) == 0);
        CHECK(s.count == h_count && s.sum == h_model_sum());
    }
}

static void hash_verify_finds(void)
{
    int i;
    for (i = 0; i <= HN; i++) {
        int id = i;
        void * const e = cstl_hash_find(&H, item_key(i), item_match, &id);
        if (h_in[i]) {
            CHECK(e == &items[i]);
        } else {
            CHECK(e == NULL);
        }
    }
    CHECK(cstl_hash_find(&H, 123456789, NULL, NULL) == NULL);
}

static void hash_verify(void)
{
    hash_verify_light();
    if (h_buckets > 0) {
        struct h_sum s;
        hash_verify_finds();
        hash_verify_light();
        s.count = 0;
        s.sum = 0;
        CHECK(cstl_hash_foreach(&H, h_visit, &s) == 0);
        CHECK(s.count == h_count && s.sum == h_model_sum());
        hash_verify_light();
    }
}

static void hash_insert(const int id)
{
    const unsigned long idx = g_idx;
    CHECK(!h_in[id]);
    cstl_hash_insert(&H, item_key(id), &items[id]);
    h_in[id] = 1;
    h_count++;
    CHECK(g_idx == idx);
    hash_verify_light();
}

static void hash_erase(const int id)
{
    const unsigned long idx = g_idx;
    if (!h_in[id]) {
        return;
    }
    cstl_hash_erase(&H, &items[id]);
    h_in[id] = 0;
    h_count--;
    CHECK(g_idx == idx);
    hash_verify_light();
}

/* the number of buckets, as far as the public interface tells */
static size_t hash_buckets(void)
{
    float load;
    size_t n;
    int temp = 0;

    if (cstl_hash_size(&H) == 0) {
        load = cstl_hash_load(&H);
        if (load != load || load > 1e30f) {
            /* nothing divided by no buckets */
            return 0;
        }
        /* an empty but sized table; measure with a temporary item */
        temp = 1;
        cstl_hash_insert(&H, item_key(HN), &items[HN]);
    }
    load = cstl_hash_load(&H);
    n = (size_t)lroundf((float)cstl_hash_size(&H) / load);
    if (temp) {
        cstl_hash_erase(&H, &items[HN]);
        CHECK(cstl_hash_size(&H) == 0);
    }
    return n;
}

static void hash_resize(const size_t n, cstl_hash_func_t * const f)
{
    const unsigned long mark = MARK();
    size_t after;

    CHECK(hash_buckets() == h_buckets);
    cstl_hash_resize(&H, n, f);
    after = hash_buckets();
    if (n == 0) {
        CHECK(after == h_buckets);
    } else if (!FAILED(mark) && n < ((size_t)1 << 40)) {
        CHECK(after == n);
    } else {
        /* failed quietly, or made it after all */
        CHECK(after == h_buckets || after == n);
    }
    h_buckets = after;
    hash_verify_light();
}

static void hash_shrink(void)
{
    cstl_hash_shrink_to_fit(&H);
    CHECK(hash_buckets() == h_buckets);
    hash_verify_light();
}

static void hash_clr(void * const e, void * const p)
{
    struct item * const it = e;
    (void)p;
    CHECK(h_in[it->id]);
    h_in[it->id] = 0;
    h_count--;
}

static void hash_clear(void)
{
    const unsigned long idx = g_idx;
    cstl_hash_clear(&H, hash_clr);
    CHECK(g_idx == idx);
    CHECK(h_count == 0);
    CHECK(cstl_hash_size(&H) == 0);
    h_buckets = 0;
}

static void hash_begin(void)
{
    int i;
    for (i = 0; i <= HN; i++) {
        items[i].id = i;
        items[i].tail = 4242;
        h_in[i] = 0;
    }
    h_count = 0;
    h_buckets = 0;
}

/* the first resize makes the table usable; w/o it there is nothing to do */
static int hash_first(const size_t n, cstl_hash_func_t * const f)
{
    int tries;
    for (tries = 0; tries < 3 && h_buckets == 0; tries++) {
        hash_resize(n, f);
    }
    if (h_buckets == 0) {
        hash_clear();
        return 0;
    }
    return 1;
}

static void hash_script_grow(void)
{
    int i;
    hash_begin();
    hash_resize(0, NULL);
    if (!hash_first(4, NULL)) {
        return;
    }
    for (i = 0; i < 12; i++) {
        hash_insert(i);
    }
    hash_verify();
    hash_resize(16, NULL);
    /* operations while the rehash is (perhaps) under way */
    hash_insert(19);
    hash_erase(3);
    hash_insert(29);
    hash_erase(19);
    hash_verify();
    hash_resize(7, cstl_hash_div);
    hash_insert(20);
    hash_erase(0);
    hash_shrink();
    hash_insert(21);
    hash_verify();
    hash_resize(7, cstl_hash_div);
    hash_resize(33, hash_custom);
    hash_resize(40, NULL);
    hash_erase(5);
    hash_insert(39);
    hash_verify();
    hash_shrink();
    hash_resize((size_t)-1 / 64, NULL);
    hash_verify();
    for (i = 0; i < HN; i += 2) {
        hash_erase(i);
    }
    hash_verify();
    hash_resize(2, cstl_hash_mul);
    hash_shrink();
    hash_verify();
    hash_clear();
    /* from scratch again after the clear */
    if (hash_first(3, cstl_hash_div)) {
        hash_insert(9);
        hash_insert(19);
        hash_verify();
        hash_clear();
    }
}

static void hash_script_shrink(void)
{
    int i;
    hash_begin();
    if (!hash_first(32, hash_custom)) {
        return;
    }
    for (i = 0; i < 30; i++) {
        hash_insert(i);
    }
    hash_resize(5, NULL);
    hash_shrink();
    hash_erase(9);
    hash_erase(19);
    hash_verify();
    hash_resize(11, NULL);
    hash_resize(12, NULL);
    hash_shrink();
    hash_insert(9);
    hash_resize(1, NULL);
    hash_verify();
    hash_shrink();
    hash_shrink();
    hash_resize(9, cstl_hash_mul);
    hash_verify();
    hash_clear();
}

static void hash_script_short(void)
{
    hash_begin();
    if (!hash_first(2, NULL)) {
        return;
    }
    hash_insert(1);
    hash_insert(2);
    hash_insert(9);
    hash_resize(6, NULL);
    hash_erase(2);
    hash_resize(3, NULL);
    hash_shrink();
    hash_verify();
    hash_clear();
}

/* an empty table is resized and shrunk too */
static void hash_script_empty(void)
{
    hash_begin();
    hash_shrink();
    if (!hash_first(8, cstl_hash_div)) {
        return;
    }
    hash_resize(3, NULL);
    hash_shrink();
    hash_resize(20, NULL);
    hash_insert(7);
    hash_erase(7);
    hash_resize(4, NULL);
    hash_shrink();
    hash_verify();
    hash_clear();
}

/* one bucket, one chain: take from its head, its tail and its middle */
static void hash_script_chain(void)
{
    int i;
    hash_begin();
    if (!hash_first(1, cstl_hash_div)) {
        return;
    }
    for (i = 0; i < 7; i++) {
        hash_insert(i);
    }
    hash_erase(6);
    hash_erase(0);
    hash_erase(3);
    hash_verify();
    hash_resize(3, NULL);
    hash_erase(5);
    hash_erase(1);
    hash_insert(9);
    hash_insert(19);
    hash_insert(29);
    hash_resize(1, NULL);
    hash_erase(19);
    hash_verify();
    hash_erase(29);
    hash_erase(9);
    hash_erase(2);
    hash_erase(4);
    CHECK(h_count == 0);
    hash_verify();
    hash_shrink();
    hash_insert(8);
    hash_verify();
    hash_clear();
}

/* ------------------------------------------------------------------ */
/* smart pointer world                                                  */

#define NCLR 16
static void * clr_seen[NCLR];
static size_t clr_n;
static int clr_tag;     /* the fill byte the next cleared block must carry */

static void note_clr(void * const mem, const int exact)
{
    size_t i;
    CHECK(mem != NULL && in_run_arena(mem));
    if (exact) {
        /* a unique pointer's memory is documented to be a malloc() block */
        CHECK(user_blk(mem)->magic == MAGIC_LIVE);
    }
    for (i = 0; i < clr_n; i++) {
        CHECK(clr_seen[i] != mem);
    }
    CHECK(clr_n < NCLR);
    clr_seen[clr_n++] = mem;
}

static void u_clr(void * const mem, void * const priv)
{
    note_clr(mem, 1);
    CHECK(priv == &clr_tag);
    CHECK(*(unsigned char *)mem == (unsigned char)clr_tag);
}

static void s_clr(void * const mem, void * const priv)
{
    note_clr(mem, 0);
    CHECK(priv == NULL);
    CHECK(*(unsigned char *)mem == (unsigned char)clr_tag);
}

static DECLARE_CSTL_UNIQUE_PTR(UP);
static cstl_unique_ptr_t UP2;

static void unique_script(void)
{
    unsigned long mark;
    void * p, * q;
    cstl_xtor_func_t * f;
    void * priv;
    size_t base;

    clr_n = 0;
    cstl_unique_ptr_init(&UP2);
    CHECK(cstl_unique_ptr_get(&UP) == NULL);

    /* nothing requested, nothing managed */
    mark = g_idx;
    cstl_unique_ptr_alloc(&UP, 0, u_clr, &clr_tag);
    CHECK(cstl_unique_ptr_get(&UP) == NULL && g_idx == mark);

    mark = MARK();
    cstl_unique_ptr_alloc(&UP, 48, u_clr, &clr_tag);
    p = cstl_unique_ptr_get(&UP);
    if (p == NULL) {
        CHECK(FAILED(mark));
        /* empty, and usable: ask again */
        mark = MARK();
        cstl_unique_ptr_alloc(&UP, 48, u_clr, &clr_tag);
        p = cstl_unique_ptr_get(&UP);
        CHECK(p != NULL || FAILED(mark));
    }
    if (p != NULL) {
        memset(p, 0x11, 48);
    }

    /* allocating over a managed block lets the old one go, once */
    base = clr_n;
    clr_tag = 0x11;
    mark = MARK();
    cstl_unique_ptr_alloc(&UP, 100, u_clr, &clr_tag);
    q = cstl_unique_ptr_get(&UP);
    CHECK(clr_n == base + (p != NULL ? 1 : 0));
    if (p != NULL) {
        CHECK(clr_seen[clr_n - 1] == p);
        CHECK(user_blk(p)->magic == MAGIC_FREE);
    }
    if (q == NULL) {
        CHECK(FAILED(mark));
    } else {
        CHECK(q != p);
        memset(q, 0x22, 100);
    }

    /* swap with an empty one and back */
    cstl_unique_ptr_swap(&UP, &UP2);
    CHECK(cstl_unique_ptr_get(&UP) == NULL);
    CHECK(cstl_unique_ptr_get(&UP2) == q);
    cstl_unique_ptr_swap(&UP2, &UP);
    CHECK(cstl_unique_ptr_get(&UP) == q);

    /* release hands the block to the caller, who frees it */
    mark = MARK();
    cstl_unique_ptr_alloc(&UP2, 7, NULL, NULL);
    p = cstl_unique_ptr_get(&UP2);
    CHECK(p != NULL || FAILED(mark));
    f = u_clr;
    priv = &mark;
    CHECK(cstl_unique_ptr_release(&UP2, &f, &priv) == p);
    CHECK(cstl_unique_ptr_get(&UP2) == NULL);
    if (p != NULL) {
        CHECK(f == NULL && priv == NULL);
        memset(p, 0x33, 7);
        free(p);
    }

    base = clr_n;
    clr_tag = 0x22;
    cstl_unique_ptr_reset(&UP);
    CHECK(clr_n == base + (q != NULL ? 1 : 0));
    CHECK(cstl_unique_ptr_get(&UP) == NULL);
    cstl_unique_ptr_reset(&UP);
    cstl_unique_ptr_reset(&UP2);
    CHECK(clr_n == base + (q != NULL ? 1 : 0));
}

static DECLARE_CSTL_SHARED_PTR(SP1);
static DECLARE_CSTL_SHARED_PTR(SP2);
static DECLARE_CSTL_WEAK_PTR(WP);
static cstl_shared_ptr_t SP3;

static void shared_script(void)
{
    unsigned long mark;
    unsigned char * a, * b;
    size_t base, i;

    clr_n = 0;
    cstl_shared_ptr_init(&SP3);

    mark = g_idx;
    cstl_shared_ptr_alloc(&SP1, 0, s_clr);
    CHECK(cstl_shared_ptr_get(&SP1) == NULL && g_idx == mark);
    CHECK(cstl_shared_ptr_unique(&SP1));

    mark = MARK();
    cstl_shared_ptr_alloc(&SP1, 40, s_clr);
    a = cstl_shared_ptr_get(&SP1);
    if (a == NULL) {
        CHECK(FAILED(mark));
        mark = MARK();
        cstl_shared_ptr_alloc(&SP1, 40, s_clr);
        a = cstl_shared_ptr_get(&SP1);
        CHECK(a != NULL || FAILED(mark));
    }
    if (a != NULL) {
        memset(a, 0x44, 40);
        CHECK(cstl_shared_ptr_unique(&SP1));
    }

    mark = g_idx;
    cstl_shared_ptr_share(&SP1, &SP2);
    cstl_weak_ptr_from(&WP, &SP1);
    CHECK(g_idx == mark);
    CHECK(cstl_shared_ptr_get(&SP2) == a);
    if (a != NULL) {
        CHECK(!cstl_shared_ptr_unique(&SP1));
    }

    /* SP1 moves on to new memory (or to none); SP2 keeps the old */
    base = clr_n;
    mark = MARK();
    cstl_shared_ptr_alloc(&SP1, 24, s_clr);
    b = cstl_shared_ptr_get(&SP1);
    CHECK(clr_n == base);
    if (b == NULL) {
        CHECK(FAILED(mark));
    } else {
        CHECK(b != a);
        memset(b, 0x55, 24);
        CHECK(cstl_shared_ptr_unique(&SP1));
    }
    CHECK(cstl_shared_ptr_get(&SP2) == a);
    for (i = 0; a != NULL && i < 40; i++) {
        CHECK(a[i] == 0x44);
    }

    mark = g_idx;
    cstl_weak_ptr_lock(&WP, &SP3);
    CHECK(g_idx == mark);
    CHECK(cstl_shared_ptr_get(&SP3) == a);

    /* the old block goes when its last owner does, not before */
    clr_tag = 0x44;
    cstl_shared_ptr_reset(&SP2);
    CHECK(clr_n == base);
    cstl_shared_ptr_swap(&SP2, &SP3);
    CHECK(cstl_shared_ptr_get(&SP2) == a && cstl_shared_ptr_get(&SP3) == NULL);
    cstl_shared_ptr_reset(&SP2);
    CHECK(clr_n == base + (a != NULL ? 1 : 0));
    if (a != NULL) {
        CHECK(clr_seen[clr_n - 1] == a);
    }

    /* the weak pointer finds nothing alive any more */
    cstl_weak_ptr_lock(&WP, &SP3);
    CHECK(cstl_shared_ptr_get(&SP3) == NULL);
    cstl_weak_ptr_reset(&WP);

    /* a weak pointer to the new block outlives it */
    cstl_weak_ptr_from(&WP, &SP1);
    base = clr_n;
    clr_tag = 0x55;
    cstl_shared_ptr_reset(&SP1);
    CHECK(clr_n == base + (b != NULL ? 1 : 0));
    CHECK(cstl_shared_ptr_get(&SP1) == NULL);
    cstl_weak_ptr_lock(&WP, &SP2);
    CHECK(cstl_shared_ptr_get(&SP2) == NULL);

    /* allocate into a pointer while a weak pointer still watches */
    mark = MARK();
    cstl_shared_ptr_alloc(&SP1, 9, NULL);
    a = cstl_shared_ptr_get(&SP1);
    CHECK(a != NULL || FAILED(mark));
    if (a != NULL) {
        memset(a, 0x66, 9);
    }
    cstl_weak_ptr_lock(&WP, &SP2);
    CHECK(cstl_shared_ptr_get(&SP2) == NULL);
    cstl_weak_ptr_reset(&WP);
    cstl_weak_ptr_reset(&WP);
    cstl_shared_ptr_reset(&SP1);
    cstl_shared_ptr_reset(&SP1);
    cstl_shared_ptr_reset(&SP2);
    cstl_shared_ptr_reset(&SP3);
}

/* a population of shared and weak pointers checked against a model */

#define NSP 4
#define NWP 2
#define NBLK 12
static cstl_shared_ptr_t sp_[NSP];
static cstl_weak_ptr_t wp_[NWP];
static int sp_blk[NSP], wp_blk[NWP];
static struct
{
    unsigned char * mem;
    size_t size;
    unsigned char tag;
    int cleared;
} blk_[NBLK];
static int nblk;

static void pop_clr(void * const mem, void * const priv)
{
    int b;
    size_t i;
    CHECK(priv == NULL);
    for (b = 0; b < nblk && blk_[b].mem != mem; b++)
        ;
    CHECK(b < nblk);
    CHECK(!blk_[b].cleared);
    for (i = 0; i < blk_[b].size; i++) {
        CHECK(blk_[b].mem[i] == blk_[b].tag);
    }
    blk_[b].cleared = 1;
}

static void pop_verify(void)
{
    int i, j, b;
    for (b = 0; b < nblk; b++) {
        int owners = 0;
        for (i = 0; i < NSP; i++) {
            owners += (sp_blk[i] == b);
        }
        /* the memory goes with its last owner, and not before */
        CHECK(blk_[b].cleared == (owners == 0));
        if (owners > 0) {
            size_t k;
            for (k = 0; k < blk_[b].size; k++) {
                CHECK(blk_[b].mem[k] == blk_[b].tag);
            }
        }
    }
    for (i = 0; i < NSP; i++) {
        int refs = 0;
        if (sp_blk[i] < 0) {
            CHECK(cstl_shared_ptr_get(&sp_[i]) == NULL);
            CHECK(cstl_shared_ptr_unique(&sp_[i]));
            continue;
        }
        CHECK(cstl_shared_ptr_get(&sp_[i]) == blk_[sp_blk[i]].mem);
        CHECK(cstl_shared_ptr_get_const(&sp_[i]) == blk_[sp_blk[i]].mem);
        for (j = 0; j < NSP; j++) {
            refs += (sp_blk[j] == sp_blk[i]);
        }
        for (j = 0; j < NWP; j++) {
            refs += (wp_blk[j] == sp_blk[i]);
        }
        CHECK(cstl_shared_ptr_unique(&sp_[i]) == (refs == 1));
    }
}

static void pop_alloc(const int i, const size_t sz)
{
    const unsigned long mark = MARK();
    const unsigned long idx = g_idx;
    unsigned char * mem;

    CHECK(nblk < NBLK);
    /* whatever happens, the pointer lets go of what it had */
    sp_blk[i] = -1;
    /* the block must be known to the model before it can be cleared */
    cstl_shared_ptr_alloc(&sp_[i], sz, pop_clr);
    mem = cstl_shared_ptr_get(&sp_[i]);
    if (sz == 0) {
        CHECK(mem == NULL && g_idx == idx);
    } else if (mem == NULL) {
        CHECK(FAILED(mark));
    } else {
        int b;
        for (b = 0; b < nblk; b++) {
            /* never memory that is still in somebody's hands */
            CHECK(blk_[b].cleared || blk_[b].mem != mem);
        }
        blk_[nblk].mem = mem;
        blk_[nblk].size = sz;
        blk_[nblk].tag = (unsigned char)(0x70 + nblk);
        blk_[nblk].cleared = 0;
        memset(mem, blk_[nblk].tag, sz);
        sp_blk[i] = nblk++;
    }
    pop_verify();
}

static void pop_share(const int from, const int to)
{
    const unsigned long idx = g_idx;
    cstl_shared_ptr_share(&sp_[from], &sp_[to]);
    CHECK(g_idx == idx);
    sp_blk[to] = sp_blk[from];
    pop_verify();
}

static void pop_weak(const int w, const int from)
{
    const unsigned long idx = g_idx;
    cstl_weak_ptr_from(&wp_[w], &sp_[from]);
    CHECK(g_idx == idx);
    wp_blk[w] = sp_blk[from];
    pop_verify();
}

static void pop_lock(const int w, const int to)
{
    const unsigned long idx = g_idx;
    cstl_weak_ptr_lock(&wp_[w], &sp_[to]);
    CHECK(g_idx == idx);
    sp_blk[to] = -1;
    if (wp_blk[w] >= 0) {
        int i, owners = 0;
        for (i = 0; i < NSP; i++) {
            owners += (i != to && sp_blk[i] == wp_blk[w]);
        }
        /* only memory that still has an owner can be had */
        if (owners > 0 || cstl_shared_ptr_get(&sp_[to]) != NULL) {
            CHECK(owners > 0);
            sp_blk[to] = wp_blk[w];
        }
    }
    pop_verify();
}

static void pop_reset(const int i)
{
    const unsigned long idx = g_idx;
    cstl_shared_ptr_reset(&sp_[i]);
    CHECK(g_idx == idx);
    sp_blk[i] = -1;
    pop_verify();
}

static void pop_wreset(const int w)
{
    const unsigned long idx = g_idx;
    cstl_weak_ptr_reset(&wp_[w]);
    CHECK(g_idx == idx);
    wp_blk[w] = -1;
    pop_verify();
}

static void pop_swap(const int i, const int k)
{
    const int t = sp_blk[i];
    cstl_shared_ptr_swap(&sp_[i], &sp_[k]);
    sp_blk[i] = sp_blk[k];
    sp_blk[k] = t;
    pop_verify();
}

static void pop_begin(void)
{
    int i;
    nblk = 0;
    for (i = 0; i < NSP; i++) {
        cstl_shared_ptr_init(&sp_[i]);
        sp_blk[i] = -1;
    }
    for (i = 0; i < NWP; i++) {
        cstl_weak_ptr_init(&wp_[i]);
        wp_blk[i] = -1;
    }
    pop_verify();
}

static void pop_end(void)
{
    int i;
    for (i = 0; i < NSP; i++) {
        pop_reset(i);
    }
    for (i = 0; i < NWP; i++) {
        pop_wreset(i);
    }
    for (i = 0; i < nblk; i++) {
        CHECK(blk_[i].cleared);
    }
}

static void population_script(void)
{
    pop_begin();
    pop_alloc(0, 33);
    pop_share(0, 1);
    pop_share(0, 2);
    pop_weak(0, 1);
    pop_alloc(1, 17);
    pop_weak(1, 1);
    pop_lock(0, 3);
    pop_alloc(0, 1);
    pop_swap(0, 2);
    pop_reset(0);
    pop_reset(3);
    pop_lock(0, 3);
    pop_alloc(2, 0);
    pop_lock(0, 0);
    pop_share(1, 3);
    pop_reset(1);
    pop_lock(1, 1);
    pop_alloc(3, 64);
    pop_alloc(3, 65);
    pop_weak(0, 3);
    pop_reset(3);
    pop_lock(0, 2);
    pop_end();
}

static void population_script_short(void)
{
    pop_begin();
    pop_alloc(0, 8);
    pop_weak(0, 0);
    pop_share(0, 1);
    pop_alloc(0, 9);
    pop_reset(1);
    pop_lock(0, 2);
    pop_alloc(1, 10);
    pop_end();
}

/* ------------------------------------------------------------------ */
/* array world                                                          */

static DECLARE_CSTL_ARRAY(A);
static cstl_array_t S, B;
static int ext_buf[6];

static void array_script(void)
{
    unsigned long mark;
    size_t i;
    int have_a, * old = NULL;
    void * buf;

    cstl_array_init(&S);
    cstl_array_init(&B);
    CHECK(cstl_array_size(&A) == 0 && cstl_array_data(&A) == NULL);

    /* an element count whose byte size cannot be represented */
    mark = g_idx;
    cstl_array_alloc(&A, (size_t)-1 / 2, 4);
    CHECK(cstl_array_size(&A) == 0 && cstl_array_data(&A) == NULL);
    CHECK(g_idx == mark);

    mark = MARK();
    cstl_array_alloc(&A, 10, sizeof(int));
    have_a = cstl_array_size(&A) != 0;
    if (!have_a) {
        CHECK(FAILED(mark));
        CHECK(cstl_array_data(&A) == NULL);
        mark = MARK();
        cstl_array_alloc(&A, 10, sizeof(int));
        have_a = cstl_array_size(&A) != 0;
        CHECK(have_a || FAILED(mark));
    }
    if (have_a) {
        CHECK(cstl_array_size(&A) == 10);
        old = cstl_array_data(&A);
        CHECK(old != NULL);
        for (i = 0; i < 10; i++) {
            *(int *)cstl_array_at(&A, i) = (int)(100 + i);
        }
        CHECK(old[9] == 109);

        mark = g_idx;
        cstl_array_slice(&A, 2, 7, &S);
        CHECK(g_idx == mark);
        CHECK(cstl_array_size(&S) == 5);
        CHECK(*(int *)cstl_array_at(&S, 0) == 102);
        CHECK(cstl_array_at(&S, 4) == cstl_array_at(&A, 6));

        /* not an external array: nothing to release */
        buf = &mark;
        cstl_array_release(&A, &buf);
        CHECK(buf == NULL && cstl_array_size(&A) == 10);
    }

    /* A moves on (or becomes empty); the slice keeps the old array */
    mark = MARK();
    cstl_array_alloc(&A, 5, sizeof(struct big));
    if (cstl_array_size(&A) == 0) {
        CHECK(FAILED(mark));
        CHECK(cstl_array_data(&A) == NULL);
    } else {
        CHECK(cstl_array_size(&A) == 5);
        for (i = 0; i < 5; i++) {
            struct big * const e = cstl_array_at(&A, i);
            e->id = (int)i;
            e->pad[2] = -1;
        }
    }
    if (have_a) {
        CHECK(cstl_array_size(&S) == 5);
        for (i = 0; i < 5; i++) {
            CHECK(*(const int *)cstl_array_at_const(&S, i) == (int)(102 + i));
        }
        cstl_array_unslice(&S, &B);
        CHECK(cstl_array_size(&B) == 10);
        CHECK(*(int *)cstl_array_at(&B, 9) == 109);
        cstl_array_reset(&B);
        cstl_array_reset(&S);
    }

    /* a caller's buffer */
    for (i = 0; i < 6; i++) {
        ext_buf[i] = (int)(6 - i);
    }
    mark = MARK();
    cstl_array_set(&B, ext_buf, 6, sizeof(int));
    if (cstl_array_size(&B) == 0) {
        CHECK(FAILED(mark));
        CHECK(cstl_array_data(&B) == NULL);
    } else {
        CHECK(cstl_array_size(&B) == 6);
        CHECK(cstl_array_data(&B) == ext_buf);
        CHECK(*(int *)cstl_array_at(&B, 5) == 1);
        cstl_array_slice(&B, 1, 3, &S);
        /* not released while another reference exists */
        buf = &mark;
        cstl_array_release(&B, &buf);
        CHECK(buf == NULL && cstl_array_size(&B) == 6);
        cstl_array_reset(&S);
        cstl_array_release(&B, &buf);
        CHECK(buf == ext_buf);
        CHECK(cstl_array_size(&B) == 0 && cstl_array_data(&B) == NULL);
        CHECK(ext_buf[0] == 6 && ext_buf[5] == 1);
    }

    cstl_array_reset(&A);
    cstl_array_reset(&A);
    cstl_array_reset(&B);
    CHECK(cstl_array_size(&A) == 0 && cstl_array_data(&A) == NULL);
}

/* ------------------------------------------------------------------ */
/* several kinds of object in one script, failures landing anywhere     */

static void mixed_script(void)
{
    int k;

    map_begin();
    hash_begin();
    string_begin();
    v_live = 0;
    vw_init(&VW, &V_int, sizeof(int), 0);
    VW2.v = NULL;

    map_insert(4, &mvals[4]);
    vec_resize(&VW, 2);
    string_append("k=");
    if (hash_first(3, NULL)) {
        hash_insert(1);
        hash_insert(2);
    }
    for (k = 0; k < 4; k++) {
        map_insert(k * 5, &mvals[k]);
        vec_resize(&VW, VW.n + 1);
        string_insert_ch(string_n, 1, (char)('0' + k));
        if (h_buckets > 0) {
            hash_insert(10 + k);
            hash_resize(4 + (size_t)k * 3, NULL);
        }
    }
    vec_shrink(&VW);
    map_erase(5, 0);
    string_substr(1, 3);
    if (h_buckets > 0) {
        hash_shrink();
        hash_verify();
    }
    map_verify();
    vec_verify_all();
    string_verify();

    hash_clear();
    vec_clear(&VW);
    string_end();
    map_end();
}

/* ------------------------------------------------------------------ */

int main(void)
{
    struct sigaction sa;
    int i;

    memset(&sa, 0, sizeof(sa));
    sa.sa_handler = on_abort;
    sigemptyset(&sa.sa_mask);
    sigaction(SIGABRT, &sa, NULL);

    for (i = 0; i < MK; i++) {
        mkeys[i] = i;
    }
    /* a scrambled order for the map; the vector lives outside the runs */
    cstl_vector_resize(&m_rank, MK);
    for (i = 0; i < MK; i++) {
        *(int *)cstl_vector_at(&m_rank, i) = (i * 7) % MK;
    }

    explore("map/short", map_script_short, 14);
    explore("map/ascending", map_script_ascending, 0);
    explore("map/mixed", map_script_mixed, 0);
    explore("map/drain", map_script_drain, 0);
    explore("map/many", map_script_many, 0);

    explore("vector/short", vec_script_short, 14);
    explore("vector/big", vec_script_big, 14);
    explore("vector/push", vec_script_push, 14);
    explore("vector/two", vec_script_two, 14);

    explore("string/short", string_script_short, 14);
    explore("string/edit", string_script_edit, 14);
    explore("wstring/short", wstring_script_short, 14);
    explore("wstring/edit", wstring_script_edit, 14);

    explore("hash/short", hash_script_short, 14);
    explore("hash/empty", hash_script_empty, 14);
    explore("hash/grow", hash_script_grow, 14);
    explore("hash/shrink", hash_script_shrink, 14);
    explore("hash/chain", hash_script_chain, 14);

    explore("memory/unique", unique_script, 14);
    explore("memory/shared", shared_script, 14);
    explore("memory/people", population_script_short, 14);
    explore("memory/crowd", population_script, 14);
    explore("array", array_script, 14);

    explore("mixed", mixed_script, 0);

    printf("C16 ok: %lu runs\n", g_runs);
    return 0;
}
