/*
 * Model-based test of the map through its public API only (insert, find,
 * erase by key, erase by iterator, clear, size). Patch c changes map.c
 * itself (entry layout, how iterators are filled in, erase by key no longer
 * routed through find + erase by iterator), so this test leans on what the
 * iterators report: output iterators are pre-filled with junk, may be NULL
 * where allowed, and erase by key is also called with the key pointer taken
 * from the very iterator that receives the result. Every operation sequence
 * of length <= 6 over a 3-key universe and of length <= 5 over 4 keys, and
 * long seeded random sequences with forward, reverse and scrambled
 * comparison functions; malloc/free are wrapped to check that erase and
 * clear release what insert allocated.
 *
 * Build + run (from the worktree root, after `make build`):
 *   gcc -std=c99 -O1 -Iinclude -Wl,--wrap=malloc,--wrap=free -o _keep/c/test _keep/c/test.c build/libcstl.a -lm && ./_keep/c/test
 */
#include "cstl/map.h"

#include <stdio.h>
#include <stdlib.h>
#include <string.h>

void * __real_malloc(size_t);
void __real_free(void *);
static long live_allocs, total_allocs;
void * __wrap_malloc(const size_t n)
{
    void * const p = __real_malloc(n);
    if (p != NULL) {
        live_allocs++;
        total_allocs++;
    }
    return p;
}
void __wrap_free(void * const p)
{
    if (p != NULL) {
        live_allocs--;
    }
    __real_free(p);
}

#define CHECK(c) do { if (!(c)) { \
    fprintf(stderr, "FAIL line %d: %s\n", __LINE__, #c); exit(1); } } while (0)

#define MAXU 256
struct key { int k; };

static struct key keys[2][MAXU];    /* two distinct objects per key value */
static int vals[1 << 20];
static size_t nvals;

static struct
{
    int present;
    const struct key * key;
    int * val;
    int cleared;
} model[MAXU];
static size_t msize;
static int U;
static long ncmp;
static int cmp_mode;

static int scramble(const int k)
{
    return (k * 37 + 11) % 257;
}

static int cmp(const void * const a, const void * const b, void * const p)
{
    int x = ((const struct key *)a)->k, y = ((const struct key *)b)->k;
    CHECK(p == &ncmp);
    ncmp++;
    switch (cmp_mode) {
    case 1: return (y > x) - (y < x);           /* reverse order */
    case 2: x = scramble(x); y = scramble(y); break;
    case 3: return (x - y) * 1000;              /* big magnitudes */
    default: break;
    }
    return (x > y) - (x < y);
}

static void verify(const cstl_map_t * const m)
{
    int v;
    CHECK(cstl_map_size(m) == msize);
    for (v = 0; v < U; v++) {
        cstl_map_iterator_t i;
        memset(&i, 0x5a, sizeof(i));
        cstl_map_find(m, &keys[v & 1][v], &i);
        if (model[v].present) {
            CHECK(!cstl_map_iterator_eq(&i, cstl_map_iterator_end(m)));
            CHECK(i.key == model[v].key);
            CHECK(i.val == model[v].val);
        } else {
            CHECK(cstl_map_iterator_eq(&i, cstl_map_iterator_end(m)));
        }
    }
}

static void op_insert(cstl_map_t * const m, const int v, const int alt)
{
    const struct key * const k = &keys[alt][v];
    int * const val = &vals[nvals++];
    cstl_map_iterator_t i;
    int res;

    CHECK(nvals < sizeof(vals) / sizeof(vals[0]));
    memset(&i, 0x5a, sizeof(i));
    res = cstl_map_insert(m, k, val, (nvals & 7) ? &i : NULL);
    if (model[v].present) {
        CHECK(res == 1);
        if (nvals & 7) {
            CHECK(!cstl_map_iterator_eq(&i, cstl_map_iterator_end(m)));
            CHECK(i.key == model[v].key && i.val == model[v].val);
        }
    } else {
        CHECK(res == 0);
        model[v].present = 1;
        model[v].key = k;
        model[v].val = val;
        msize++;
        if (nvals & 7) {
            CHECK(!cstl_map_iterator_eq(&i, cstl_map_iterator_end(m)));
            CHECK(i.key == k && i.val == val);
        }
    }
}

static void op_erase(cstl_map_t * const m, const int v, const int alt)
{
    cstl_map_iterator_t i;
    int res;

    memset(&i, 0x5a, sizeof(i));
    res = cstl_map_erase(m, &keys[alt][v], (v + alt) % 5 ? &i : NULL);
    if (model[v].present) {
        CHECK(res == 0);
        if ((v + alt) % 5) {
            CHECK(cstl_map_iterator_eq(&i, cstl_map_iterator_end(m)));
            CHECK(i.key == model[v].key && i.val == model[v].val);
        }
        model[v].present = 0;
        msize--;
    } else {
        CHECK(res == -1);
        if ((v + alt) % 5) {
            CHECK(cstl_map_iterator_eq(&i, cstl_map_iterator_end(m)));
        }
    }
}

static void op_erase_iter(cstl_map_t * const m, const int v, const int alt)
{
    cstl_map_iterator_t i;

    cstl_map_find(m, &keys[alt][v], &i);
    if (model[v].present) {
        CHECK(!cstl_map_iterator_eq(&i, cstl_map_iterator_end(m)));
        CHECK(i.key == model[v].key && i.val == model[v].val);
        cstl_map_erase_iterator(m, &i);
        /* key and val stay readable so that the caller can free them */
        CHECK(i.key == model[v].key && i.val == model[v].val);
        model[v].present = 0;
        msize--;
    } else {
        CHECK(cstl_map_iterator_eq(&i, cstl_map_iterator_end(m)));
    }
}

/* erase by key, the key being the stored one, read out of the out-iterator */
static void op_erase_alias(cstl_map_t * const m, const int v)
{
    cstl_map_iterator_t i;
    int res;

    cstl_map_find(m, &keys[0][v], &i);
    if (model[v].present) {
        CHECK(i.key == model[v].key);
        res = cstl_map_erase(m, i.key, &i);
        CHECK(res == 0);
        CHECK(cstl_map_iterator_eq(&i, cstl_map_iterator_end(m)));
        CHECK(i.key == model[v].key && i.val == model[v].val);
        model[v].present = 0;
        msize--;
        /* and once more, now that it is gone */
        res = cstl_map_erase(m, i.key, &i);
        CHECK(res == -1);
        CHECK(cstl_map_iterator_eq(&i, cstl_map_iterator_end(m)));
    } else {
        CHECK(cstl_map_iterator_eq(&i, cstl_map_iterator_end(m)));
        res = cstl_map_erase(m, &keys[1][v], NULL);
        CHECK(res == -1);
    }
}

static size_t nclr;
static void clr(void * const e, void * const p)
{
    const cstl_map_iterator_t * const i = e;
    const struct key * const k = i->key;
    int v;

    CHECK(p == &nclr);
    CHECK(k != NULL);
    v = k->k;
    CHECK(v >= 0 && v < U);
    CHECK(model[v].present && !model[v].cleared);
    CHECK(i->key == model[v].key && i->val == model[v].val);
    model[v].cleared = 1;
    nclr++;
}

static void op_clear(cstl_map_t * const m, const int withcb)
{
    int v;

    nclr = 0;
    for (v = 0; v < U; v++) {
        model[v].cleared = 0;
    }
    cstl_map_clear(m, withcb ? clr : NULL, &nclr);
    if (withcb) {
        CHECK(nclr == msize);
    }
    for (v = 0; v < U; v++) {
        model[v].present = 0;
    }
    msize = 0;
    CHECK(live_allocs == 0);
}

static void start(cstl_map_t * const m, const int u, const int mode)
{
    int v;
    U = u;
    cmp_mode = mode;
    msize = 0;
    nvals = 0;
    for (v = 0; v < MAXU; v++) {
        keys[0][v].k = keys[1][v].k = v;
        model[v].present = 0;
    }
    CHECK(live_allocs == 0);
    cstl_map_init(m, cmp, &ncmp);
    CHECK(cstl_map_size(m) == 0);
}

static long exhaustive(const int len, const int u, const int mode)
{
    const int nops = 3 * u + 1;
    long total = 1, code;
    int i;

    for (i = 0; i < len; i++) {
        total *= nops;
    }
    for (code = 0; code < total; code++) {
        cstl_map_t m;
        long c = code;

        start(&m, u, mode);
        for (i = 0; i < len; i++, c /= nops) {
            const int op = c % nops;
            if (op < u) {
                op_insert(&m, op, i & 1);
            } else if (op < 2 * u) {
                op_erase(&m, op - u, (i + 1) & 1);
            } else if (op < 3 * u) {
                if ((code + i) % 3 == 0) {
                    op_erase_alias(&m, op - 2 * u);
                } else {
                    op_erase_iter(&m, op - 2 * u, i & 1);
                }
            } else {
                op_clear(&m, i & 1);
            }
            verify(&m);
            CHECK(live_allocs == (long)msize);
        }
        op_clear(&m, 1);
        verify(&m);
    }
    return total;
}

/* fill with n keys, then erase them all in the given order */
static void fill_erase(const int n, const int order, const int mode)
{
    cstl_map_t m;
    int j;

    start(&m, n, mode);
    for (j = 0; j < n; j++) {
        op_insert(&m, (j * 7) % n, j & 1);      /* may repeat keys */
    }
    for (j = 0; j < n; j++) {       /* make sure all are in */
        op_insert(&m, j, 0);
    }
    verify(&m);
    CHECK(msize == (size_t)n);
    for (j = 0; j < n; j++) {
        int v;
        switch (order) {
        case 0: v = j; break;
        case 1: v = n - 1 - j; break;
        case 2: v = (j % 2) ? n - 1 - j / 2 : j / 2; break;   /* ends first */
        default: v = (n / 2 + ((j % 2) ? -(j + 1) / 2 : j / 2) + n) % n; break;
        }
        if (j & 1) {
            op_erase(&m, v, j & 2 ? 1 : 0);
        } else {
            op_erase_iter(&m, v, j & 2 ? 1 : 0);
        }
        verify(&m);
        CHECK(live_allocs == (long)msize);
    }
    /* anything the order function missed (it may repeat some keys) */
    op_clear(&m, 1);
    verify(&m);
}

static void randomized(const unsigned seed, const int u, const int steps,
                       const int mode)
{
    cstl_map_t m;
    int i;

    srand(seed);
    start(&m, u, mode);
    for (i = 0; i < steps; i++) {
        const int r = rand() % 100, v = rand() % u, alt = rand() & 1;
        if (r < 45) {
            op_insert(&m, v, alt);
        } else if (r < 70) {
            op_erase(&m, v, alt);
        } else if (r < 85) {
            op_erase_iter(&m, v, alt);
        } else if (r < 95) {
            op_erase_alias(&m, v);
        } else if (r < 96) {
            op_clear(&m, alt);
        } else {
            verify(&m);
        }
        CHECK(cstl_map_size(&m) == msize);
        CHECK(live_allocs == (long)msize);
    }
    verify(&m);
    op_clear(&m, 1);
    verify(&m);
}

int main(void)
{
    long n = 0;
    int len, j, order;

    for (len = 0; len <= 6; len++) {
        n += exhaustive(len, 3, 0);
    }
    for (len = 0; len <= 5; len++) {
        n += exhaustive(len, 4, 2);
    }

    for (j = 1; j <= 24; j++) {
        for (order = 0; order < 4; order++) {
            fill_erase(j, order, (j + order) % 4);
        }
    }

    randomized(41, 5, 30000, 0);
    randomized(42, 33, 30000, 1);
    randomized(43, 250, 30000, 2);
    randomized(44, 100, 30000, 3);

    CHECK(live_allocs == 0);
    printf("%ld exhaustive sequences, %ld comparisons, %ld allocations; ok\n",
           n, ncmp, total_allocs);
    return 0;
}
