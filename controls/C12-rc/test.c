/*
 * C12: a doubly-linked list equals a reference sequence in both directions.
 *
 * Model-based test that uses the public API of cstl/dlist.h only. Every
 * list is shadowed by a plain array of element pointers; after every
 * operation the list is traversed front-to-back and back-to-front and
 * compared with the array and with its mirror image, and front/back/size
 * are compared too.
 *
 *  - exhaustive: every sequence of up to 4 operations (3 on the larger
 *    start states) out of a menu of 22 operations, started from lists
 *    of 0..6 elements
 *  - directed: swap over all pairs of sizes (self-swap and lists of
 *    different element types included), concat over all pairs of sizes,
 *    sort over all permutations of up to 7 keys and all strings of up
 *    to 9 keys out of {0,1,2}, foreach/find over every stop position
 *  - random: long seeded sequences over three lists
 */

#include <stdio.h>
#include <stdlib.h>
#include <string.h>
#include <stddef.h>

#include "cstl/dlist.h"

#define FAIL(...)                                               \
    do {                                                        \
        fprintf(stderr, "FAIL %s:%d: ", __FILE__, __LINE__);    \
        fprintf(stderr, __VA_ARGS__);                           \
        fprintf(stderr, "\n");                                  \
        exit(1);                                                \
    } while (0)

#define CHECK(C)                                \
    do {                                        \
        if (!(C)) {                             \
            FAIL("check failed: %s", #C);       \
        }                                       \
    } while (0)

/* the element type of the lists under test; node is not the first member */
struct item
{
    int key;
    int id;
    int mark;
    struct cstl_dlist_node node;
    int tail;
};

/* a second element type with the node at offset 0 */
struct other
{
    struct cstl_dlist_node on;
    double d;
};

#define NLIST   3
#define MAXN    1024

struct model
{
    struct item * e[MAXN];
    size_t n;
};

/* one statically initialised list, the others use cstl_dlist_init() */
static DECLARE_CSTL_DLIST(L0, struct item, node);
static struct cstl_dlist L1;
static struct cstl_dlist L2 = CSTL_DLIST_INITIALIZER(L2, struct item, node);

static struct cstl_dlist * const L[NLIST] = { &L0, &L1, &L2 };
static struct model M[NLIST];

/* an auxiliary list of another type, used from within callbacks */
static DECLARE_CSTL_DLIST(AUX, struct other, on);
static struct other auxpool[8];
static unsigned int auxuse;

static struct item pool[4 * MAXN];
static size_t poolfree[4 * MAXN];
static size_t npoolfree;
static int nextid;

static unsigned long checks;

static void pool_reset(void)
{
    size_t i;
    npoolfree = 0;
    for (i = sizeof(pool) / sizeof(pool[0]); i > 0; i--) {
        poolfree[npoolfree++] = i - 1;
    }
    nextid = 0;
}

static struct item * item_new(const int key)
{
    struct item * it;
    CHECK(npoolfree > 0);
    it = &pool[poolfree[--npoolfree]];
    it->key = key;
    it->id = nextid++;
    it->mark = 0;
    it->tail = 0x5a5a;
    /* garbage in the links: the library must not depend on them */
    memset(&it->node, 0xa5, sizeof(it->node));
    return it;
}

static void item_free(struct item * const it)
{
    CHECK(it->tail == 0x5a5a);
    it->tail = 0;
    memset(&it->node, 0x5c, sizeof(it->node));
    poolfree[npoolfree++] = (size_t)(it - pool);
}

/* callbacks use another container of another element type */
static void aux_churn(void)
{
    size_t k;

    if (cstl_dlist_size(&AUX) >= 6) {
        struct other * o;
        while ((o = cstl_dlist_pop_back(&AUX)) != NULL) {
            CHECK(o->d == 1.0);
            o->d = 0.0;
            o = cstl_dlist_pop_front(&AUX);
            if (o != NULL) {
                CHECK(o->d == 1.0);
                o->d = 0.0;
            }
        }
        CHECK(cstl_dlist_size(&AUX) == 0);
        CHECK(cstl_dlist_front(&AUX) == NULL);
    }

    /* link the first pool entry that is not linked */
    for (k = 0; k < 8; k++) {
        struct other * const c = &auxpool[k];
        if (c->d == 0.0) {
            c->d = 1.0;
            if (auxuse++ & 1) {
                cstl_dlist_push_front(&AUX, c);
            } else {
                cstl_dlist_push_back(&AUX, c);
            }
            break;
        }
    }
    cstl_dlist_reverse(&AUX);
}

static void aux_reset(void)
{
    size_t k;
    while (cstl_dlist_pop_front(&AUX) != NULL)
        ;
    for (k = 0; k < 8; k++) {
        auxpool[k].d = 0.0;
    }
    auxuse = 0;
}

/* ---------------------------------------------------------------- */
/* traversal based verification                                      */

struct collect
{
    struct item * e[MAXN];
    size_t n;
};

static int collect_visit(void * const e, void * const p)
{
    struct collect * const c = p;
    CHECK(c->n < MAXN);
    c->e[c->n++] = e;
    return 0;
}

static struct collect cf, cr;

static void verify_list(struct cstl_dlist * const l,
                        const struct model * const m)
{
    size_t i;

    checks++;

    CHECK(cstl_dlist_size(l) == m->n);
    if (m->n == 0) {
        CHECK(cstl_dlist_front(l) == NULL);
        CHECK(cstl_dlist_back(l) == NULL);
    } else {
        CHECK(cstl_dlist_front(l) == m->e[0]);
        CHECK(cstl_dlist_back(l) == m->e[m->n - 1]);
    }

    cf.n = 0;
    CHECK(cstl_dlist_foreach(l, collect_visit, &cf,
                             CSTL_DLIST_FOREACH_DIR_FWD) == 0);
    cr.n = 0;
    CHECK(cstl_dlist_foreach(l, collect_visit, &cr,
                             CSTL_DLIST_FOREACH_DIR_REV) == 0);
    CHECK(cf.n == m->n);
    CHECK(cr.n == m->n);
    for (i = 0; i < m->n; i++) {
        if (cf.e[i] != m->e[i]) {
            FAIL("forward traversal differs at %lu of %lu",
                 (unsigned long)i, (unsigned long)m->n);
        }
        if (cr.e[i] != m->e[m->n - 1 - i]) {
            FAIL("backward traversal differs at %lu of %lu",
                 (unsigned long)i, (unsigned long)m->n);
        }
        CHECK(m->e[i]->tail == 0x5a5a);
    }
}

static void verify_all(void)
{
    int i;
    for (i = 0; i < NLIST; i++) {
        verify_list(L[i], &M[i]);
    }
}

/* ---------------------------------------------------------------- */
/* find                                                              */

static struct item probe;
static int find_priv_token;
static unsigned long find_calls;

static int find_cmp(const void * const a, const void * const b,
                    void * const p)
{
    CHECK(a == &probe);
    CHECK(b != &probe);
    CHECK(p == &find_priv_token);
    find_calls++;
    aux_churn();
    return ((const struct item *)a)->key - ((const struct item *)b)->key;
}

static void verify_find(struct cstl_dlist * const l,
                        const struct model * const m, const int maxkey)
{
    int k;

    for (k = -1; k <= maxkey; k++) {
        struct item * ef = NULL, * er = NULL;
        unsigned long nf = m->n, nr = m->n;
        size_t i;

        for (i = 0; i < m->n; i++) {
            if (m->e[i]->key == k) {
                ef = m->e[i];
                nf = i + 1;
                break;
            }
        }
        for (i = m->n; i > 0; i--) {
            if (m->e[i - 1]->key == k) {
                er = m->e[i - 1];
                nr = m->n - i + 1;
                break;
            }
        }

        probe.key = k;
        find_calls = 0;
        CHECK(cstl_dlist_find(l, &probe, find_cmp, &find_priv_token,
                              CSTL_DLIST_FOREACH_DIR_FWD) == ef);
        CHECK(find_calls == nf);
        find_calls = 0;
        CHECK(cstl_dlist_find(l, &probe, find_cmp, &find_priv_token,
                              CSTL_DLIST_FOREACH_DIR_REV) == er);
        CHECK(find_calls == nr);
    }
}

/* ---------------------------------------------------------------- */
/* foreach that stops                                                */

struct stopper
{
    size_t stop_at;
    int ret;
    size_t seen;
    const struct model * m;
    int rev;
};

static int stop_visit(void * const e, void * const p)
{
    struct stopper * const s = p;
    const size_t idx = s->rev ? s->m->n - 1 - s->seen : s->seen;
    CHECK(s->seen < s->m->n);
    CHECK(e == s->m->e[idx]);
    aux_churn();
    if (s->seen++ == s->stop_at) {
        return s->ret;
    }
    return 0;
}

static void verify_foreach_stop(struct cstl_dlist * const l,
                                const struct model * const m)
{
    static const int rets[] = { 1, -1, 42, -1000000 };
    size_t at;
    int rev;

    for (rev = 0; rev < 2; rev++) {
        for (at = 0; at <= m->n; at++) {
            struct stopper s;
            int res;
            s.stop_at = at;
            s.ret = rets[(at + (size_t)rev) % 4];
            s.seen = 0;
            s.m = m;
            s.rev = rev;
            res = cstl_dlist_foreach(l, stop_visit, &s,
                                     rev ? CSTL_DLIST_FOREACH_DIR_REV
                                     : CSTL_DLIST_FOREACH_DIR_FWD);
            if (at < m->n) {
                CHECK(res == s.ret);
                CHECK(s.seen == at + 1);
            } else {
                CHECK(res == 0);
                CHECK(s.seen == m->n);
            }
        }
    }
}

/* ---------------------------------------------------------------- */
/* foreach whose visitor removes the visited element                 */

struct remover
{
    struct cstl_dlist * l;
    struct cstl_dlist * to;     /* may be NULL: removed elements are freed */
    struct model * mto;
    int mod;                    /* remove elements with id % mod == 0 */
    size_t seen;
    size_t stop_after;          /* number of visits after which to stop */
    struct item * expect[MAXN];
    size_t nexpect;
};

static int remove_visit(void * const e, void * const p)
{
    struct remover * const r = p;
    struct item * const it = e;

    CHECK(r->seen < r->nexpect);
    CHECK(r->expect[r->seen] == it);
    r->seen++;

    if (it->id % r->mod == 0) {
        cstl_dlist_erase(r->l, it);
        if (r->to != NULL) {
            /* the node is free again: link it into another list */
            cstl_dlist_push_back(r->to, it);
            r->mto->e[r->mto->n++] = it;
        } else {
            item_free(it);
        }
    }
    aux_churn();

    if (r->seen == r->stop_after) {
        return 7;
    }
    return 0;
}

static void op_foreach_remove(const int li, const int to, const int mod,
                              const int rev, const size_t stop_after)
{
    static struct remover r;
    struct model * const m = &M[li];
    size_t i, w, visited;
    int res;

    r.l = L[li];
    r.to = (to >= 0) ? L[to] : NULL;
    r.mto = (to >= 0) ? &M[to] : NULL;
    r.mod = mod;
    r.seen = 0;
    r.stop_after = stop_after;
    r.nexpect = m->n;
    for (i = 0; i < m->n; i++) {
        r.expect[i] = rev ? m->e[m->n - 1 - i] : m->e[i];
    }

    res = cstl_dlist_foreach(L[li], remove_visit, &r,
                             rev ? CSTL_DLIST_FOREACH_DIR_REV
                             : CSTL_DLIST_FOREACH_DIR_FWD);

    if (stop_after >= 1 && stop_after <= r.nexpect) {
        CHECK(res == 7);
        visited = stop_after;
    } else {
        CHECK(res == 0);
        visited = r.nexpect;
    }
    CHECK(r.seen == visited);

    /* update the model: drop the visited elements that were removed */
    for (i = 0, w = 0; i < m->n; i++) {
        const size_t order = rev ? m->n - 1 - i : i;
        struct item * const it = m->e[i];
        if (order < visited && r.expect[order]->id % mod == 0) {
            continue;
        }
        m->e[w++] = it;
    }
    m->n = w;
}

/* ---------------------------------------------------------------- */
/* sort                                                              */

static int sort_priv_token;
static unsigned long sort_calls;

static int sort_cmp(const void * const a, const void * const b,
                    void * const p)
{
    const int ka = ((const struct item *)a)->key;
    const int kb = ((const struct item *)b)->key;
    CHECK(p == &sort_priv_token);
    CHECK(((const struct item *)a)->tail == 0x5a5a);
    CHECK(((const struct item *)b)->tail == 0x5a5a);
    sort_calls++;
    if ((sort_calls & 3) == 0) {
        aux_churn();
    }
    return (ka > kb) - (ka < kb);
}

static void op_sort(const int li)
{
    struct model * const m = &M[li];
    size_t i;

    for (i = 0; i < m->n; i++) {
        CHECK(m->e[i]->mark == 0);
        m->e[i]->mark = 1;
    }

    cstl_dlist_sort(L[li], sort_cmp, &sort_priv_token);

    CHECK(cstl_dlist_size(L[li]) == m->n);
    cf.n = 0;
    CHECK(cstl_dlist_foreach(L[li], collect_visit, &cf,
                             CSTL_DLIST_FOREACH_DIR_FWD) == 0);
    CHECK(cf.n == m->n);
    for (i = 0; i < cf.n; i++) {
        /* a permutation of the same elements... */
        CHECK(cf.e[i]->mark == 1);
        cf.e[i]->mark = 0;
        /* ...in order */
        if (i > 0) {
            CHECK(cf.e[i - 1]->key <= cf.e[i]->key);
        }
    }
    for (i = 0; i < m->n; i++) {
        CHECK(m->e[i]->mark == 0);
    }
    memcpy(m->e, cf.e, cf.n * sizeof(cf.e[0]));
    /* the caller verifies the backward traversal against this */
}

/* ---------------------------------------------------------------- */
/* clear                                                             */

static unsigned long clear_calls;

static void clear_cb(void * const e, void * const p)
{
    struct item * const it = e;
    (void)p;
    CHECK(it->mark == 2);
    it->mark = 0;
    clear_calls++;
    aux_churn();
    /* the callee owns the object from now on: scribble on it */
    item_free(it);
}

static void op_clear(const int li)
{
    struct model * const m = &M[li];
    size_t i;

    for (i = 0; i < m->n; i++) {
        CHECK(m->e[i]->mark == 0);
        m->e[i]->mark = 2;
    }
    clear_calls = 0;
    cstl_dlist_clear(L[li], clear_cb);
    CHECK(clear_calls == m->n);
    for (i = 0; i < m->n; i++) {
        CHECK(m->e[i]->mark == 0);
    }
    m->n = 0;
    CHECK(cstl_dlist_size(L[li]) == 0);
    CHECK(cstl_dlist_pop_front(L[li]) == NULL);
    CHECK(cstl_dlist_pop_back(L[li]) == NULL);
}

/* ---------------------------------------------------------------- */
/* the simple operations                                             */

static int keymod = 4;

static int next_key(void)
{
    return (nextid * 7 + 3) % keymod;
}

static void op_push_front(const int li)
{
    struct model * const m = &M[li];
    struct item * const it = item_new(next_key());
    CHECK(m->n < MAXN);
    cstl_dlist_push_front(L[li], it);
    memmove(&m->e[1], &m->e[0], m->n * sizeof(m->e[0]));
    m->e[0] = it;
    m->n++;
}

static void op_push_back(const int li)
{
    struct model * const m = &M[li];
    struct item * const it = item_new(next_key());
    CHECK(m->n < MAXN);
    cstl_dlist_push_back(L[li], it);
    m->e[m->n++] = it;
}

static void op_pop_front(const int li)
{
    struct model * const m = &M[li];
    struct item * const it = cstl_dlist_pop_front(L[li]);
    if (m->n == 0) {
        CHECK(it == NULL);
    } else {
        CHECK(it == m->e[0]);
        m->n--;
        memmove(&m->e[0], &m->e[1], m->n * sizeof(m->e[0]));
        item_free(it);
    }
}

static void op_pop_back(const int li)
{
    struct model * const m = &M[li];
    struct item * const it = cstl_dlist_pop_back(L[li]);
    if (m->n == 0) {
        CHECK(it == NULL);
    } else {
        CHECK(it == m->e[m->n - 1]);
        m->n--;
        item_free(it);
    }
}

/* insert after the element at position pos (no-op on an empty list) */
static void op_insert_after(const int li, const size_t pos)
{
    struct model * const m = &M[li];
    struct item * it;
    if (m->n == 0 || m->n >= MAXN) {
        return;
    }
    CHECK(pos < m->n);
    it = item_new(next_key());
    cstl_dlist_insert(L[li], m->e[pos], it);
    memmove(&m->e[pos + 2], &m->e[pos + 1],
            (m->n - pos - 1) * sizeof(m->e[0]));
    m->e[pos + 1] = it;
    m->n++;
}

static void op_erase(const int li, const size_t pos)
{
    struct model * const m = &M[li];
    struct item * it;
    if (m->n == 0) {
        return;
    }
    CHECK(pos < m->n);
    it = m->e[pos];
    cstl_dlist_erase(L[li], it);
    m->n--;
    memmove(&m->e[pos], &m->e[pos + 1], (m->n - pos) * sizeof(m->e[0]));
    item_free(it);
}

static void op_reverse(const int li)
{
    struct model * const m = &M[li];
    size_t i;
    cstl_dlist_reverse(L[li]);
    for (i = 0; i < m->n / 2; i++) {
        struct item * const t = m->e[i];
        m->e[i] = m->e[m->n - 1 - i];
        m->e[m->n - 1 - i] = t;
    }
}

static void op_concat(const int d, const int s)
{
    CHECK(d != s);
    if (M[d].n + M[s].n > MAXN) {
        return;
    }
    cstl_dlist_concat(L[d], L[s]);
    memcpy(&M[d].e[M[d].n], &M[s].e[0], M[s].n * sizeof(M[s].e[0]));
    M[d].n += M[s].n;
    M[s].n = 0;
    /* the source is empty and usable */
    CHECK(cstl_dlist_size(L[s]) == 0);
    CHECK(cstl_dlist_front(L[s]) == NULL);
    CHECK(cstl_dlist_back(L[s]) == NULL);
}

static void op_swap(const int a, const int b)
{
    static struct model t;
    cstl_dlist_swap(L[a], L[b]);
    if (a != b) {
        t.n = M[a].n;
        memcpy(t.e, M[a].e, t.n * sizeof(t.e[0]));
        M[a].n = M[b].n;
        memcpy(M[a].e, M[b].e, M[b].n * sizeof(t.e[0]));
        M[b].n = t.n;
        memcpy(M[b].e, t.e, t.n * sizeof(t.e[0]));
    }
}

/* ---------------------------------------------------------------- */

static void world_reset(void)
{
    int i;
    /* the lists are reused without being re-initialised after a clear */
    for (i = 0; i < NLIST; i++) {
        op_clear(i);
    }
    aux_reset();
    pool_reset();
    verify_all();
}

static void deep_verify(void)
{
    int i;
    verify_all();
    for (i = 0; i < NLIST; i++) {
        verify_find(L[i], &M[i], keymod);
        verify_foreach_stop(L[i], &M[i]);
    }
    verify_all();
}

/* ---------------------------------------------------------------- */
/* exhaustive over short sequences                                   */

#define NOPS 22

static void do_op(const int op)
{
    switch (op) {
    case 0:  op_push_front(0); break;
    case 1:  op_push_back(0); break;
    case 2:  op_pop_front(0); break;
    case 3:  op_pop_back(0); break;
    case 4:  op_insert_after(0, 0); break;
    case 5:  op_insert_after(0, M[0].n ? M[0].n - 1 : 0); break;
    case 6:  op_insert_after(0, M[0].n / 2); break;
    case 7:  op_erase(0, 0); break;
    case 8:  op_erase(0, M[0].n ? M[0].n - 1 : 0); break;
    case 9:  op_erase(0, M[0].n / 2); break;
    case 10: op_reverse(0); break;
    case 11: op_sort(0); break;
    case 12: op_concat(0, 1); break;
    case 13: op_concat(1, 0); break;
    case 14: op_swap(0, 1); break;
    case 15: op_foreach_remove(0, 2, 2, 0, 0); break;
    case 16: op_foreach_remove(0, -1, 1, 1, 0); break;
    case 17: op_foreach_remove(0, 1, 3, 1, 2); break;
    case 18: op_clear(0); break;
    case 19: op_push_back(1); break;
    case 20: op_pop_front(1); break;
    case 21: op_reverse(1); break;
    default: FAIL("bad op %d", op);
    }
}

static void exhaustive(void)
{
    size_t n0, n1;
    unsigned long nseq = 0;

    for (n0 = 0; n0 <= 6; n0++) {
        for (n1 = 0; n1 <= 2; n1++) {
            const int maxlen = (n0 <= 3 && n1 != 1) ? 4 : 3;
            int len;
            for (len = 0; len <= maxlen; len++) {
                unsigned long total = 1, s;
                int k;
                for (k = 0; k < len; k++) {
                    total *= NOPS;
                }
                for (s = 0; s < total; s++) {
                    unsigned long c = s;
                    size_t i;

                    world_reset();
                    for (i = 0; i < n0; i++) {
                        op_push_back(0);
                    }
                    for (i = 0; i < n1; i++) {
                        op_push_front(1);
                    }
                    for (k = 0; k < len; k++) {
                        do_op((int)(c % NOPS));
                        c /= NOPS;
                        verify_all();
                    }
                    if (len <= 2 || s % 7 == 0) {
                        deep_verify();
                    }
                    nseq++;
                }
            }
        }
    }
    world_reset();
    printf("exhaustive: %lu sequences\n", nseq);
}

/* ---------------------------------------------------------------- */
/* directed: swap                                                    */

static void directed_swap(void)
{
    size_t na, nb, i;
    struct other o[3];
    struct cstl_dlist Y;

    for (na = 0; na <= 7; na++) {
        for (nb = 0; nb <= 7; nb++) {
            world_reset();
            for (i = 0; i < na; i++) {
                op_push_back(0);
            }
            for (i = 0; i < nb; i++) {
                op_push_back(1);
            }
            op_swap(0, 1);
            verify_all();
            /* both lists are fully usable afterwards */
            op_push_front(0);
            op_push_back(1);
            verify_all();
            op_pop_back(0);
            op_pop_front(1);
            verify_all();
            op_swap(1, 0);
            verify_all();
            op_swap(0, 0);
            op_swap(1, 1);
            verify_all();
            op_swap(2, 0);
            verify_all();
            op_reverse(2);
            op_reverse(0);
            op_swap(2, 1);
            deep_verify();
            op_concat(0, 1);
            op_concat(0, 2);
            deep_verify();
        }
    }

    /* lists of different element types: the offset travels with the list */
    for (na = 0; na <= 3; na++) {
        for (nb = 0; nb <= 3; nb++) {
            struct model * const m = &M[0];
            world_reset();
            cstl_dlist_init(&Y, offsetof(struct other, on));
            for (i = 0; i < na; i++) {
                op_push_back(0);
            }
            for (i = 0; i < nb; i++) {
                o[i].d = (double)i;
                cstl_dlist_push_back(&Y, &o[i]);
            }
            cstl_dlist_swap(L[0], &Y);
            CHECK(cstl_dlist_size(L[0]) == nb);
            CHECK(cstl_dlist_size(&Y) == na);
            if (nb > 0) {
                CHECK(cstl_dlist_front(L[0]) == &o[0]);
                CHECK(cstl_dlist_back(L[0]) == &o[nb - 1]);
            } else {
                CHECK(cstl_dlist_front(L[0]) == NULL);
                CHECK(cstl_dlist_back(L[0]) == NULL);
            }
            verify_list(&Y, m);
            cstl_dlist_swap(&Y, L[0]);
            CHECK(cstl_dlist_size(&Y) == nb);
            for (i = 0; i < nb; i++) {
                CHECK(cstl_dlist_pop_front(&Y) == &o[i]);
            }
            CHECK(cstl_dlist_pop_front(&Y) == NULL);
            CHECK(cstl_dlist_pop_back(&Y) == NULL);
            deep_verify();
        }
    }
    world_reset();
}

/* ---------------------------------------------------------------- */
/* directed: concat                                                  */

static void directed_concat(void)
{
    size_t na, nb, i;

    for (na = 0; na <= 8; na++) {
        for (nb = 0; nb <= 8; nb++) {
            world_reset();
            for (i = 0; i < na; i++) {
                op_push_back(0);
            }
            for (i = 0; i < nb; i++) {
                op_push_back(1);
            }
            op_concat(0, 1);
            deep_verify();
            /* the second list is usable */
            op_push_back(1);
            op_push_front(1);
            verify_all();
            op_concat(1, 0);
            deep_verify();
            op_concat(2, 1);
            op_concat(1, 0);
            op_concat(0, 2);
            deep_verify();
            op_reverse(0);
            op_sort(0);
            deep_verify();
        }
    }
    world_reset();
}

/* ---------------------------------------------------------------- */
/* directed: sort                                                    */

static void sort_keys(const int * const keys, const size_t n)
{
    size_t i;
    world_reset();
    for (i = 0; i < n; i++) {
        struct item * const it = item_new(keys[i]);
        cstl_dlist_push_back(L[1], it);
        M[1].e[M[1].n++] = it;
    }
    verify_all();
    op_sort(1);
    verify_all();
    for (i = 0; i + 1 < n; i++) {
        CHECK(M[1].e[i]->key <= M[1].e[i + 1]->key);
    }
}

static void permute(int * const keys, const size_t k, const size_t n)
{
    size_t i;
    if (k == n) {
        int copy[8];
        memcpy(copy, keys, n * sizeof(keys[0]));
        sort_keys(copy, n);
        return;
    }
    for (i = k; i < n; i++) {
        int t = keys[k]; keys[k] = keys[i]; keys[i] = t;
        permute(keys, k + 1, n);
        t = keys[k]; keys[k] = keys[i]; keys[i] = t;
    }
}

static void directed_sort(void)
{
    size_t n;
    int keys[16];

    for (n = 0; n <= 7; n++) {
        size_t i;
        for (i = 0; i < n; i++) {
            keys[i] = (int)i;
        }
        permute(keys, 0, n);
    }

    /* every string over {0,1,2} of up to 9 keys: many duplicates */
    for (n = 0; n <= 9; n++) {
        unsigned long total = 1, s;
        size_t i;
        for (i = 0; i < n; i++) {
            total *= 3;
        }
        for (s = 0; s < total; s++) {
            unsigned long c = s;
            for (i = 0; i < n; i++) {
                keys[i] = (int)(c % 3);
                c /= 3;
            }
            sort_keys(keys, n);
        }
    }
    world_reset();
}

/* ---------------------------------------------------------------- */
/* directed: foreach and find                                        */

static void directed_foreach(void)
{
    size_t n, stop;
    int rev, mod, to;

    for (n = 0; n <= 7; n++) {
        for (rev = 0; rev < 2; rev++) {
            for (mod = 1; mod <= 3; mod++) {
                for (to = -1; to <= 2; to++) {
                    if (to == 0) {
                        continue;
                    }
                    for (stop = 0; stop <= n + 1; stop++) {
                        size_t i;
                        world_reset();
                        for (i = 0; i < n; i++) {
                            op_push_back(0);
                        }
                        op_push_back(2);
                        deep_verify();
                        op_foreach_remove(0, to, mod, rev, stop);
                        deep_verify();
                        op_push_front(0);
                        op_reverse(0);
                        deep_verify();
                    }
                }
            }
        }
    }
    world_reset();
}

/* ---------------------------------------------------------------- */
/* seeded random over long sequences                                 */

static unsigned long long rng_state;

static unsigned int rnd(void)
{
    rng_state = rng_state * 6364136223846793005ULL + 1442695040888963407ULL;
    return (unsigned int)(rng_state >> 33);
}

static void random_run(const unsigned int seed, const unsigned int nops,
                       const size_t softmax)
{
    unsigned int i;

    world_reset();
    rng_state = 0x9e3779b97f4a7c15ULL ^ ((unsigned long long)seed << 17);
    keymod = 2 + (int)(seed % 9);

    for (i = 0; i < nops; i++) {
        const int a = (int)(rnd() % NLIST);
        int b = (int)(rnd() % NLIST);
        const unsigned int r = rnd() % 100;
        struct model * const m = &M[a];
        const int grow = m->n < softmax;

        if (r < 14) {
            if (grow) op_push_front(a); else op_pop_back(a);
        } else if (r < 28) {
            if (grow) op_push_back(a); else op_pop_front(a);
        } else if (r < 36) {
            op_pop_front(a);
        } else if (r < 44) {
            op_pop_back(a);
        } else if (r < 56) {
            if (grow && m->n > 0) op_insert_after(a, rnd() % m->n);
        } else if (r < 66) {
            if (m->n > 0) op_erase(a, rnd() % m->n);
        } else if (r < 72) {
            op_reverse(a);
        } else if (r < 77) {
            op_sort(a);
        } else if (r < 82) {
            if (a == b) b = (b + 1) % NLIST;
            op_concat(a, b);
        } else if (r < 87) {
            op_swap(a, b);
        } else if (r < 93) {
            int to = (int)(rnd() % (NLIST + 1)) - 1;
            if (to == a) to = -1;
            op_foreach_remove(a, to, 1 + (int)(rnd() % 4), (int)(rnd() & 1),
                              (rnd() & 1) ? 0 : rnd() % (m->n + 2));
        } else if (r < 95) {
            op_clear(a);
        } else if (r < 98) {
            verify_find(L[a], m, keymod);
        } else {
            if (m->n <= 64) verify_foreach_stop(L[a], m);
        }

        if (softmax <= 16 || i % 4 == 0) {
            verify_all();
        } else {
            verify_list(L[a], &M[a]);
            verify_list(L[b], &M[b]);
        }
    }

    verify_all();
    if (M[0].n <= 64 && M[1].n <= 64 && M[2].n <= 64) {
        deep_verify();
    }
    keymod = 4;
}

static void random_all(void)
{
    unsigned int seed;

    for (seed = 1; seed <= 300; seed++) {
        random_run(seed, 600, 6);
    }
    for (seed = 1000; seed < 1100; seed++) {
        random_run(seed, 1500, 40);
    }
    for (seed = 2000; seed < 2012; seed++) {
        random_run(seed, 3000, 300);
    }
    world_reset();
}

/* a large sort and reverse of an odd and an even number of elements */
static void big(void)
{
    size_t n;
    for (n = 999; n <= 1000; n++) {
        size_t i;
        world_reset();
        keymod = 257;
        for (i = 0; i < n; i++) {
            if (i & 1) op_push_back(0); else op_push_front(0);
        }
        verify_all();
        op_reverse(0);
        verify_all();
        op_sort(0);
        verify_all();
        op_sort(0);
        verify_all();
        op_reverse(0);
        op_sort(0);
        verify_all();
        keymod = 4;
    }
    world_reset();
}

int main(void)
{
    cstl_dlist_init(&L1, offsetof(struct item, node));
    pool_reset();

    /* freshly initialised lists */
    verify_all();
    CHECK(cstl_dlist_pop_front(&L0) == NULL);
    CHECK(cstl_dlist_pop_back(&L0) == NULL);
    CHECK(cstl_dlist_pop_front(&L1) == NULL);
    CHECK(cstl_dlist_pop_back(&L2) == NULL);
    cstl_dlist_reverse(&L0);
    cstl_dlist_sort(&L2, sort_cmp, &sort_priv_token);
    cstl_dlist_concat(&L0, &L2);
    cstl_dlist_swap(&L0, &L2);
    verify_all();

    directed_swap();
    directed_concat();
    directed_foreach();
    directed_sort();
    exhaustive();
    random_all();
    big();

    printf("ok: %lu list verifications\n", checks);
    return 0;
}
