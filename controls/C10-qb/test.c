/*
 * C10 / change b (the terminator is no longer an element of the underlying vector).
 * The property under test: strings equal a reference string after every edit and stay
 * NUL-terminated.
 *
 * Public API only, both character widths (the body of this file is compiled
 * twice, by including itself). A reference model (plain array + length) is
 * edited alongside the string object and compared after every operation:
 * size, every at()/at_const(), and str() == exactly size characters followed
 * by a NUL. Positions beyond the end must abort (checked in a forked child),
 * counts reaching past the end - including SIZE_MAX and neighbours - are
 * truncated, growth that cannot be satisfied (huge counts, huge resize,
 * lengths whose storage size cannot be represented) must abort, a huge
 * reserve is ignored quietly. find_ch/find_str/find/compare/compare_str are
 * compared with strchr/strstr/strcmp (wcs...) applied to the model, also for
 * strings with embedded NULs.
 *
 * Part 1: every base string over {a,b} up to length 3, every operation, every
 * position and count from {0, 1, size-1, size, size+1, SIZE_MAX-1, SIZE_MAX,
 * ...}. Part 2: long seeded random edit sequences on two strings per width.
 * Nothing depends on capacities, addresses, allocation counts or on how the
 * string uses its underlying vector.
 */
#ifndef TEST_BODY

#define _DEFAULT_SOURCE
#include "cstl/string.h"

#include <stdint.h>
#include <stdio.h>
#include <stdlib.h>
#include <string.h>
#include <wchar.h>
#include <signal.h>
#include <unistd.h>
#include <sys/wait.h>
#include <sys/resource.h>

static unsigned long fails;
static unsigned long nforks;

#define CHECK(c) do { if (!(c)) { fails++; \
    fprintf(stderr, "%s:%d: %s\n", __FILE__, __LINE__, #c); \
    if (fails > 20) { exit(1); } } } while (0)

static unsigned long long rng_state = 12345;

static unsigned rnd(void)
{
    rng_state = rng_state * 6364136223846793005ULL + 1442695040888963407ULL;
    return (unsigned)(rng_state >> 33);
}

static int sign(const int x)
{
    return (x > 0) - (x < 0);
}

#define MAXLEN 48

/* run f(arg) in a child; 1 if it died of SIGABRT, 0 if it exited normally */
static int aborts(void (* const f)(void *), void * const arg)
{
    pid_t pid;
    int st = 0;

    nforks++;
    fflush(NULL);
    pid = fork();
    if (pid == 0) {
        f(arg);
        _exit(0);
    }
    if (pid < 0 || waitpid(pid, &st, 0) != pid) {
        CHECK(!"fork/waitpid");
        return -1;
    }
    if (WIFSIGNALED(st) && WTERMSIG(st) == SIGABRT) {
        return 1;
    }
    CHECK(WIFEXITED(st) && WEXITSTATUS(st) == 0);
    return 0;
}

#define CAT_(a, b) a##b
#define CAT(a, b) CAT_(a, b)

#define TEST_BODY

#define P(name) CAT(cstl_string_, name)
#define T(name) CAT(name, _n)
#define CH char
#define STYPE struct cstl_string
#define LIBC(name) CAT(str, name)
#include "test.c"
#undef P
#undef T
#undef CH
#undef STYPE
#undef LIBC

#define P(name) CAT(cstl_wstring_, name)
#define T(name) CAT(name, _w)
#define CH wchar_t
#define STYPE struct cstl_wstring
#define LIBC(name) CAT(wcs, name)
#include "test.c"
#undef P
#undef T
#undef CH
#undef STYPE
#undef LIBC

int main(void)
{
    const struct rlimit nocore = { 0, 0 };

    /* the children abort() on purpose; don't dump core for that */
    setrlimit(RLIMIT_CORE, &nocore);

    exhaustive_n();
    exhaustive_w();
    random_run_n(1, 20000);
    random_run_w(2, 20000);
    random_run_n(3, 10000);
    random_run_w(4, 10000);

    printf("forks: %lu\n", nforks);
    if (fails != 0) {
        printf("FAIL (%lu)\n", fails);
        return 1;
    }
    printf("OK\n");
    return 0;
}

#else /* TEST_BODY: compiled once per character width */

struct T(ts)
{
    STYPE s;
    CH m[MAXLEN + 1];           /* model, always NUL-terminated */
    size_t n;
};

/* arguments for an operation that runs in a child */
struct T(args)
{
    struct T(ts) * t;
    STYPE * other;
    int op;
    size_t pos, cnt;
    CH ch;
    const CH * str;
};

enum
{
    T(OP_INSERT_CH), T(OP_INSERT_STR_N), T(OP_ERASE), T(OP_SUBSTR),
    T(OP_RESIZE), T(OP_FIND_CH), T(OP_FIND_STR), T(OP_AT), T(OP_AT_CONST),
    T(OP_INSERT), T(OP_INSERT_STR), T(OP_FIND), T(OP_NOPS)
};

static void T(child_op)(void * const p)
{
    struct T(args) * const a = p;
    STYPE * const s = &a->t->s;

    switch (a->op) {
    case T(OP_INSERT_CH): P(insert_ch)(s, a->pos, a->cnt, a->ch); break;
    case T(OP_INSERT_STR_N): P(insert_str_n)(s, a->pos, a->str, a->cnt); break;
    case T(OP_INSERT_STR): P(insert_str)(s, a->pos, a->str); break;
    case T(OP_INSERT): P(insert)(s, a->pos, a->other); break;
    case T(OP_ERASE): P(erase)(s, a->pos, a->cnt); break;
    case T(OP_SUBSTR): P(substr)(s, a->pos, a->cnt, a->other); break;
    case T(OP_RESIZE): P(resize)(s, a->cnt); break;
    case T(OP_FIND_CH): (void)P(find_ch)(s, a->ch, a->pos); break;
    case T(OP_FIND_STR): (void)P(find_str)(s, a->str, a->pos); break;
    case T(OP_FIND): (void)P(find)(s, a->other, a->pos); break;
    case T(OP_AT): (void)*(volatile CH *)P(at)(s, a->pos); break;
    default: (void)*(volatile const CH *)P(at_const)(s, a->pos); break;
    }
}

static void T(check)(struct T(ts) * const t)
{
    const CH * const str = P(str)(&t->s);
    size_t i;

    CHECK(P(size)(&t->s) == t->n);
    CHECK(t->n == 0 || P(capacity)(&t->s) >= t->n);
    CHECK(str != NULL);
    if (str == NULL) {
        return;
    }
    for (i = 0; i < t->n; i++) {
        CHECK(str[i] == t->m[i]);
        CHECK(*P(at)(&t->s, i) == t->m[i]);
        CHECK(P(at_const)(&t->s, i) == P(at)(&t->s, i));
        CHECK(P(at)(&t->s, i) == P(data)(&t->s) + i);
    }
    CHECK(str[t->n] == 0);
    CHECK(t->m[t->n] == 0);
    if (t->n > 0) {
        CHECK(str == P(data)(&t->s));
    }
    CHECK(sign(P(compare_str)(&t->s, t->m)) == 0);
}

static void T(set_model)(struct T(ts) * const t, const CH * const str)
{
    t->n = LIBC(len)(str);
    memcpy(t->m, str, (t->n + 1) * sizeof(CH));
}

static void T(model_insert)(struct T(ts) * const t, const size_t pos,
                            const CH * const src, const CH ch,
                            const size_t cnt)
{
    size_t i;
    memmove(t->m + pos + cnt, t->m + pos, (t->n - pos + 1) * sizeof(CH));
    for (i = 0; i < cnt; i++) {
        t->m[pos + i] = (src != NULL) ? src[i] : ch;
    }
    t->n += cnt;
}

static int T(is_huge)(const size_t x)
{
    return x > (SIZE_MAX >> 4);
}

/*
 * do one operation on t (and the model), with abort expectations.
 * other/om: a second, distinct string object with known contents.
 */
static void T(apply)(struct T(ts) * const t, struct T(ts) * const o,
                     const int op, const size_t pos, const size_t cnt,
                     const CH ch, const CH * const src /* >= 3 chars */)
{
    struct T(args) a;
    const size_t srclen = LIBC(len)(src);

    a.t = t;
    a.other = &o->s;
    a.op = op;
    a.pos = pos;
    a.cnt = cnt;
    a.ch = ch;
    a.str = src;

    switch (op) {
    case T(OP_INSERT_CH):
    case T(OP_INSERT_STR_N):
        if (pos > t->n || (cnt > 0 && T(is_huge)(cnt))) {
            CHECK(aborts(T(child_op), &a) == 1);
        } else if (cnt <= srclen && t->n + cnt <= MAXLEN) {
            T(child_op)(&a);
            T(model_insert)(t, pos, op == T(OP_INSERT_CH) ? NULL : src, ch, cnt);
        }
        break;
    case T(OP_INSERT_STR):
        if (pos > t->n) {
            CHECK(aborts(T(child_op), &a) == 1);
        } else if (t->n + srclen <= MAXLEN) {
            T(child_op)(&a);
            T(model_insert)(t, pos, src, 0, srclen);
        }
        break;
    case T(OP_INSERT):
        if (pos > t->n) {
            CHECK(aborts(T(child_op), &a) == 1);
        } else if (t->n + o->n <= MAXLEN) {
            T(child_op)(&a);
            T(model_insert)(t, pos, o->m, 0, o->n);
        }
        break;
    case T(OP_ERASE):
        if (pos >= t->n) {
            CHECK(aborts(T(child_op), &a) == 1);
        } else {
            const size_t len = (cnt > t->n - pos) ? t->n - pos : cnt;
            T(child_op)(&a);
            memmove(t->m + pos, t->m + pos + len,
                    (t->n - pos - len + 1) * sizeof(CH));
            t->n -= len;
        }
        break;
    case T(OP_SUBSTR):
        if (pos >= t->n) {
            CHECK(aborts(T(child_op), &a) == 1);
        } else {
            const size_t len = (cnt > t->n - pos) ? t->n - pos : cnt;
            T(child_op)(&a);
            memcpy(o->m, t->m + pos, len * sizeof(CH));
            o->m[len] = 0;
            o->n = len;
        }
        break;
    case T(OP_RESIZE):
        if (T(is_huge)(cnt)) {
            CHECK(aborts(T(child_op), &a) == 1);
        } else if (cnt <= MAXLEN) {
            size_t i;
            T(child_op)(&a);
            for (i = t->n; i < cnt; i++) {
                t->m[i] = 0;
            }
            t->m[cnt] = 0;
            t->n = cnt;
        }
        break;
    case T(OP_FIND_CH):
        if (pos >= t->n) {
            CHECK(aborts(T(child_op), &a) == 1);
        } else {
            const CH * const f = LIBC(chr)(t->m + pos, ch);
            const ssize_t want = (f != NULL && f != t->m + t->n) ? f - t->m : -1;
            CHECK(P(find_ch)(&t->s, ch, pos) == want);
        }
        break;
    case T(OP_FIND_STR):
    case T(OP_FIND):
        if (pos >= t->n) {
            CHECK(aborts(T(child_op), &a) == 1);
        } else {
            const CH * const ndl = (op == T(OP_FIND)) ? o->m : src;
            const CH * const f = LIBC(str)(t->m + pos, ndl);
            const ssize_t want = (f != NULL) ? f - t->m : -1;
            if (op == T(OP_FIND)) {
                CHECK(P(find)(&t->s, &o->s, pos) == want);
            } else {
                CHECK(P(find_str)(&t->s, ndl, pos) == want);
            }
        }
        break;
    default:
        if (pos >= t->n) {
            CHECK(aborts(T(child_op), &a) == 1);
        } else {
            T(child_op)(&a);
        }
        break;
    }
}

static void T(ts_init)(struct T(ts) * const t, const CH * const str)
{
    P(init)(&t->s);
    if (str != NULL) {
        P(set_str)(&t->s, str);
        T(set_model)(t, str);
    } else {
        t->n = 0;
        t->m[0] = 0;
    }
}

static size_t T(special)(const size_t n, const unsigned k)
{
    switch (k) {
    case 0: return 0;
    case 1: return 1;
    case 2: return (n > 0) ? n - 1 : 0;
    case 3: return n;
    case 4: return n + 1;
    case 5: return 2;
    case 6: return SIZE_MAX;
    case 7: return SIZE_MAX - 1;
    case 8: return SIZE_MAX - n;
    case 9: return SIZE_MAX / sizeof(CH);
    case 10: return SIZE_MAX / sizeof(CH) - 1;
    case 11: return SIZE_MAX / sizeof(CH) - n;
    default: return SIZE_MAX / 2 + 1;
    }
}
#define NSPECIAL 13

static void T(exhaustive)(void)
{
    static const char alpha[] = "ab";
    unsigned long ncase = 0;
    unsigned len, code, op, pk, ck;

    for (len = 0; len <= 3; len++) {
        for (code = 0; code < (1u << len); code++) {
            CH base[4], src[4], ostr[3];
            unsigned i;

            for (i = 0; i < len; i++) {
                base[i] = (CH)alpha[(code >> i) & 1];
            }
            base[len] = 0;
            src[0] = (CH)'b';
            src[1] = (CH)'a';
            src[2] = (CH)'b';
            src[3] = 0;
            ostr[0] = (CH)'a';
            ostr[1] = (CH)'b';
            ostr[2] = 0;

            for (op = 0; op < T(OP_NOPS); op++) {
                for (pk = 0; pk < NSPECIAL; pk++) {
                    for (ck = 0; ck < NSPECIAL; ck++) {
                        struct T(ts) t, o;
                        const size_t pos = T(special)(len, pk);
                        const size_t cnt = T(special)(len, ck);

                        /* operations that ignore the count: do them once */
                        if (ck > 0 && (op == T(OP_FIND_CH)
                                       || op == T(OP_FIND_STR)
                                       || op == T(OP_FIND)
                                       || op == T(OP_AT)
                                       || op == T(OP_AT_CONST)
                                       || op == T(OP_INSERT)
                                       || op == T(OP_INSERT_STR))) {
                            continue;
                        }
                        if (pk > 0 && op == T(OP_RESIZE)) {
                            continue;
                        }
                        /* thin out the combinations with a huge position */
                        if (pk >= 6 && ck != 0 && ck != 3 && ck != 6) {
                            continue;
                        }

                        /* a string that was never set, for length 0 */
                        T(ts_init)(&t, (len == 0 && code == 0 && (pk + ck) % 2)
                                   ? NULL : base);
                        T(ts_init)(&o, ostr);
                        T(check)(&t);

                        T(apply)(&t, &o, (int)op, pos, cnt,
                                 (CH)((ck % 2) ? 'a' : 'b'),
                                 (pk % 2) ? src : src + 1);
                        T(check)(&t);
                        T(check)(&o);
                        if (op == T(OP_FIND_CH) && t.n > 0) {
                            /* looking for the terminator finds nothing */
                            T(apply)(&t, &o, (int)op, 0, 0, 0, src);
                        }

                        P(clear)(&t.s);
                        P(clear)(&o.s);
                        CHECK(P(size)(&t.s) == 0);
                        CHECK(*P(str)(&t.s) == 0);
                        ncase++;
                    }
                }
            }
        }
    }
    printf("exhaustive (%u bytes/char): %lu cases\n",
           (unsigned)sizeof(CH), ncase);
}

static void T(random_run)(const unsigned long long seed,
                          const unsigned long nops)
{
    struct T(ts) t[2];
    unsigned long k;

    rng_state = seed * 7919;
    T(ts_init)(&t[0], NULL);
    T(ts_init)(&t[1], NULL);

    for (k = 0; k < nops; k++) {
        const unsigned w = rnd() % 2;
        struct T(ts) * const x = &t[w], * const o = &t[1 - w];
        const unsigned r = rnd() % 100;
        CH src[6];
        size_t pos, cnt;
        unsigned i;
        const unsigned slen = 3 + rnd() % 3;

        for (i = 0; i < slen; i++) {
            src[i] = (CH)('a' + rnd() % 3);
        }
        src[slen] = 0;

        /* mostly sensible positions and counts, sometimes special ones */
        if (rnd() % 16 == 0) {
            pos = T(special)(x->n, rnd() % NSPECIAL);
        } else {
            pos = (x->n > 0) ? rnd() % (x->n + 1) : 0;
        }
        if (rnd() % 16 == 0) {
            cnt = T(special)(x->n, rnd() % NSPECIAL);
        } else {
            cnt = rnd() % 4;
        }

        if (r < 12) {
            /* now and then a NUL goes into the string */
            T(apply)(x, o, T(OP_INSERT_CH), pos, cnt,
                     (CH)((rnd() % 16 == 0) ? 0 : 'a' + rnd() % 3), src);
        } else if (r < 22) {
            T(apply)(x, o, T(OP_INSERT_STR_N), pos, cnt, 0, src);
        } else if (r < 28) {
            T(apply)(x, o, T(OP_INSERT_STR), pos, 0, 0, src);
        } else if (r < 34) {
            T(apply)(x, o, T(OP_INSERT), pos, 0, 0, src);
        } else if (r < 48) {
            T(apply)(x, o, T(OP_ERASE), pos,
                     (rnd() % 4 == 0) ? cnt + x->n / 2 : cnt, 0, src);
        } else if (r < 56) {
            T(apply)(x, o, T(OP_SUBSTR), pos,
                     (rnd() % 2) ? cnt + x->n / 2 : cnt, 0, src);
        } else if (r < 62) {
            size_t to = cnt;
            if (!T(is_huge)(cnt)) {
                to = (rnd() % 2) ? x->n + cnt : (x->n > cnt ? x->n - cnt : 0);
                if (to > MAXLEN) {
                    to = MAXLEN;
                }
            }
            T(apply)(x, o, T(OP_RESIZE), 0, to, 0, src);
        } else if (r < 70) {
            T(apply)(x, o, T(OP_FIND_CH), pos, 0,
                     (CH)((rnd() % 8 == 0) ? 0 : 'a' + rnd() % 4), src);
        } else if (r < 78) {
            src[1 + rnd() % 2] = 0;
            T(apply)(x, o, T(OP_FIND_STR), pos, 0, 0, src);
        } else if (r < 82) {
            T(apply)(x, o, T(OP_FIND), pos, 0, 0, src);
        } else if (r < 85) {
            T(apply)(x, o, (rnd() % 2) ? T(OP_AT) : T(OP_AT_CONST), pos, 0, 0, src);
        } else if (r < 88) {
            /* append family */
            if (x->n + slen <= MAXLEN && x->n + o->n <= MAXLEN) {
                switch (rnd() % 4) {
                case 0:
                    P(append_str)(&x->s, src);
                    T(model_insert)(x, x->n, src, 0, slen);
                    break;
                case 1:
                    P(append_str_n)(&x->s, src, 2);
                    T(model_insert)(x, x->n, src, 0, 2);
                    break;
                case 2:
                    P(append_ch)(&x->s, 2, src[0]);
                    T(model_insert)(x, x->n, NULL, src[0], 2);
                    break;
                default:
                    P(append)(&x->s, &o->s);
                    T(model_insert)(x, x->n, o->m, 0, o->n);
                    break;
                }
            }
        } else if (r < 91) {
            P(set_str)(&x->s, src);
            T(set_model)(x, src);
        } else if (r < 94) {
            CH mt[MAXLEN + 1];
            size_t nt;
            P(swap)(&x->s, &o->s);
            memcpy(mt, x->m, sizeof(mt));
            memcpy(x->m, o->m, sizeof(mt));
            memcpy(o->m, mt, sizeof(mt));
            nt = x->n;
            x->n = o->n;
            o->n = nt;
        } else if (r < 96) {
            P(clear)(&x->s);
            x->n = 0;
            x->m[0] = 0;
        } else if (r < 98) {
            /* reserve never changes the contents; huge ones are ignored */
            P(reserve)(&x->s, T(is_huge)(cnt) ? cnt - 1 : x->n + cnt);
            if (!T(is_huge)(cnt)) {
                CHECK(P(capacity)(&x->s) >= x->n + cnt);
            }
        } else {
            CHECK(sign(P(compare)(&x->s, &o->s)) == sign(LIBC(cmp)(x->m, o->m)));
            CHECK(sign(P(compare_str)(&x->s, src)) == sign(LIBC(cmp)(x->m, src)));
            CHECK(sign(P(compare)(&x->s, &x->s)) == 0);
        }
        T(check)(x);
        T(check)(o);
    }
    P(clear)(&t[0].s);
    P(clear)(&t[1].s);
}

#endif
